"""Abstract string building for the encoder's frame-shape rule (C02 rule 3).

Strings are sequences of atoms: ('lit', text) | ('var', name) | ('join', sep_text, listname)
| ('int', spec, IntForm) | ('cksum', frozen atoms).  Integer expressions are linear forms
over symbolic lengths.  Only the straight-line top-level statements of the function are
interpreted; names assigned inside compound statements are opaque.
"""
from __future__ import annotations

import ast
import re

from .core import AnalysisError, unparse, walk_no_nested
from .fold import EnumVal, Folder


class IntForm:
    def __init__(self, coeffs=None, const=0):
        self.coeffs = dict(coeffs or {})
        self.const = const

    def __add__(self, o):
        c = dict(self.coeffs)
        for k, v in o.coeffs.items():
            c[k] = c.get(k, 0) + v
        return IntForm({k: v for k, v in c.items() if v}, self.const + o.const)

    def __eq__(self, o):
        return isinstance(o, IntForm) and self.coeffs == o.coeffs and self.const == o.const

    def __hash__(self):
        return hash((tuple(sorted(self.coeffs.items())), self.const))

    def __repr__(self):
        parts = [f"{v}*len({k})" if v != 1 else f"len({k})" for k, v in sorted(self.coeffs.items())]
        if self.const or not parts:
            parts.append(str(self.const))
        return " + ".join(parts)


def atoms_len(atoms) -> IntForm:
    out = IntForm()
    for a in atoms:
        if a[0] == "lit":
            out = out + IntForm(const=len(a[1]))
        elif a[0] == "var":
            out = out + IntForm({a[1]: 1})
        elif a[0] == "join":
            out = out + IntForm({f"join:{a[2]}": 1})
        elif a[0] == "int":
            out = out + IntForm({f"digits:{a[1]}:{a[2]!r}": 1})
        elif a[0] == "cksum":
            out = out + IntForm({"cksum": 1})
    return out


def merge(atoms):
    out = []
    for a in atoms:
        if a[0] == "lit" and out and out[-1][0] == "lit":
            out[-1] = ("lit", out[-1][1] + a[1])
        elif a[0] == "lit" and a[1] == "":
            continue
        else:
            out.append(a)
    return out


FMT = re.compile(r"%(?P<flags>[-0 +#]*)(?P<width>\d+)?(?:\.(?P<prec>\d+))?(?P<conv>[sdiurxX%])")


class StrEval:
    def __init__(self, repo, fn, cls_attrs=None):
        self.repo = repo
        self.fn = fn
        self.fold = Folder(repo)
        self.env = {}  # name -> ('str', atoms) | ('list', [atoms...]) | ('int', IntForm) | ('opaque',)
        self.cls_attrs = cls_attrs or {}
        self.opaque_names = set()
        for st in fn.body:
            if isinstance(st, (ast.If, ast.For, ast.While, ast.Try, ast.With)):
                for n in walk_no_nested(st):
                    if isinstance(n, ast.Assign):
                        for t in n.targets:
                            if isinstance(t, ast.Name):
                                self.opaque_names.add(t.id)
                    if isinstance(n, ast.Call) and isinstance(n.func, ast.Attribute) and n.func.attr in ("append", "extend", "insert") \
                            and isinstance(n.func.value, ast.Name):
                        self.opaque_names.add(n.func.value.id)
                    # lists handed to helper calls that may append
                    if isinstance(n, ast.Call):
                        for a in n.args:
                            if isinstance(a, ast.Name):
                                self.opaque_names.add("arg:" + a.id)
        self.returns = []

    # -------------------------------------------------------------- expressions
    def s(self, node):
        """Evaluate to string atoms."""
        if isinstance(node, ast.Constant) and isinstance(node.value, str):
            return [("lit", node.value)]
        if isinstance(node, ast.Name):
            v = self.env.get(node.id)
            if v is None:
                return [("var", node.id)]
            if v[0] == "str":
                return list(v[1])
            if v[0] == "int":
                return [("int", "s", v[1])]
            raise AnalysisError(f"string expected for {node.id}")
        if isinstance(node, ast.Attribute):
            t = unparse(node)
            if t in self.cls_attrs:
                return [("lit", self.cls_attrs[t])]
            f = self.fold.fold(node)
            if isinstance(f, EnumVal):
                return [("lit", str(f.value))]
            return [("var", t)]
        if isinstance(node, ast.BinOp) and isinstance(node.op, ast.Add):
            return merge(self.s(node.left) + self.s(node.right))
        if isinstance(node, ast.BinOp) and isinstance(node.op, ast.Mod) and isinstance(node.left, ast.Constant) \
                and isinstance(node.left.value, str):
            args = list(node.right.elts) if isinstance(node.right, ast.Tuple) else [node.right]
            return self._fmt(node.left.value, args)
        if isinstance(node, ast.JoinedStr):
            out = []
            for v in node.values:
                if isinstance(v, ast.Constant):
                    out.append(("lit", v.value))
                else:
                    spec = unparse(v.format_spec)[2:-1] if v.format_spec is not None else ""
                    out += self._arg(v.value, "f:" + spec if spec else "s")
            return merge(out)
        if isinstance(node, ast.Call) and isinstance(node.func, ast.Attribute) and node.func.attr == "join" and len(node.args) == 1:
            sep = self.s(node.func.value)
            if len(sep) != 1 or sep[0][0] != "lit":
                raise AnalysisError("join with a non-literal separator")
            a = node.args[0]
            if isinstance(a, ast.Name):
                v = self.env.get(a.id)
                if v is not None and v[0] == "list" and a.id not in self.opaque_names and ("arg:" + a.id) not in self.opaque_names:
                    out = []
                    for i, item in enumerate(v[1]):
                        if i:
                            out.append(("lit", sep[0][1]))
                        out += item
                    return merge(out)
                return [("join", sep[0][1], a.id)]
            raise AnalysisError(f"join over {unparse(a)}")
        if isinstance(node, ast.Call) and isinstance(node.func, ast.Name) and node.func.id == "str" and len(node.args) == 1:
            return self._arg(node.args[0], "s")
        if isinstance(node, ast.Call) and isinstance(node.func, ast.Attribute) and node.func.attr in ("zfill", "rjust") \
                and node.args and isinstance(node.args[0], ast.Constant):
            inner = self._arg(node.func.value.args[0], "s") if isinstance(node.func.value, ast.Call) and node.func.value.args else None
            if inner and inner[0][0] in ("int", "cksum"):
                fill = "0" if node.func.attr == "zfill" or (len(node.args) > 1 and isinstance(node.args[1], ast.Constant) and node.args[1].value == "0") else " "
                return [("int", f"pad{fill}{node.args[0].value}", inner[0][2] if inner[0][0] == "int" else inner[0])]
        return [("var", unparse(node))]

    def _arg(self, node, spec):
        """A format argument under conversion spec."""
        iv = self.i(node, soft=True)
        if iv is not None:
            return [("int", spec, iv)]
        atoms = self.s(node)
        return atoms

    def _fmt(self, fmt, args):
        out = []
        pos = 0
        ai = 0
        for m in FMT.finditer(fmt):
            out.append(("lit", fmt[pos:m.start()]))
            pos = m.end()
            if m.group("conv") == "%":
                out.append(("lit", "%"))
                continue
            if ai >= len(args):
                raise AnalysisError("format string has more conversions than arguments")
            spec = m.group(0)
            a = args[ai]
            ai += 1
            if m.group("conv") == "s" and not m.group("width") and not m.group("prec"):
                out += self._arg(a, "s")
            else:
                iv = self.i(a, soft=True)
                if iv is None:
                    iv = ("var", unparse(a))
                out.append(("int", spec, iv))
        out.append(("lit", fmt[pos:]))
        return merge(out)

    def i(self, node, soft=False):
        """Evaluate to an integer form (or a checksum atom)."""
        if isinstance(node, ast.Constant) and isinstance(node.value, int) and not isinstance(node.value, bool):
            return IntForm(const=node.value)
        if isinstance(node, ast.Name):
            v = self.env.get(node.id)
            if v is not None and v[0] == "int":
                return v[1]
            return None if soft else IntForm({node.id: 1})
        if isinstance(node, ast.Call) and isinstance(node.func, ast.Name) and node.func.id == "len" and len(node.args) == 1:
            return atoms_len(self.s(node.args[0]))
        if isinstance(node, ast.BinOp) and isinstance(node.op, ast.Add):
            a, b = self.i(node.left, soft), self.i(node.right, soft)
            if isinstance(a, IntForm) and isinstance(b, IntForm):
                return a + b
            return None
        if isinstance(node, ast.BinOp) and isinstance(node.op, ast.Mod):
            inner = node.left
            mod = node.right
            if isinstance(mod, ast.Constant) and isinstance(inner, ast.Call) and isinstance(inner.func, ast.Name) and inner.func.id == "sum":
                gen = inner.args[0]
                if isinstance(gen, (ast.ListComp, ast.GeneratorExp)) and len(gen.generators) == 1:
                    elt, comp = gen.elt, gen.generators[0]
                    if isinstance(elt, ast.Call) and isinstance(elt.func, ast.Name) and elt.func.id == "ord" \
                            and unparse(elt.args[0]) == unparse(comp.target) and not comp.ifs:
                        return ("cksum", tuple(self.s(comp.iter)), mod.value)
                if isinstance(gen, ast.Call) and isinstance(gen.func, ast.Name) and gen.func.id in ("map",) and len(gen.args) == 2 \
                        and unparse(gen.args[0]) == "ord":
                    return ("cksum", tuple(self.s(gen.args[1])), mod.value)
                return ("cksum-unknown", unparse(inner), mod.value)
        return None

    # ---------------------------------------------------------------- statements
    def run(self):
        for st in self.fn.body:
            if isinstance(st, ast.Expr) and isinstance(st.value, ast.Constant):
                continue
            if isinstance(st, ast.Assign) and len(st.targets) == 1 and isinstance(st.targets[0], ast.Name):
                name = st.targets[0].id
                v = st.value
                if isinstance(v, ast.List):
                    # a list display: the same as an empty list followed by one append per element
                    self.env[name] = ("list", [self.s(e) for e in v.elts])
                    continue
                iv = self.i(v, soft=True)
                if iv is not None:
                    self.env[name] = ("int", iv)
                    continue
                self.env[name] = ("str", self.s(v))
                continue
            if isinstance(st, ast.Expr) and isinstance(st.value, ast.Call) and isinstance(st.value.func, ast.Attribute) \
                    and st.value.func.attr == "append" and isinstance(st.value.func.value, ast.Name):
                lst = st.value.func.value.id
                if lst in self.env and self.env[lst][0] == "list":
                    self.env[lst][1].append(self.s(st.value.args[0]))
                continue
            if isinstance(st, ast.Return):
                self.returns.append(merge(self.s(st.value)))
                continue
            if isinstance(st, (ast.If, ast.For, ast.While, ast.Try, ast.With)):
                for n in walk_no_nested(st):
                    if isinstance(n, ast.Return):
                        raise AnalysisError("return inside a compound statement of the encoder")
                    if isinstance(n, ast.Assign):
                        for t in n.targets:
                            if isinstance(t, ast.Name):
                                self.env.pop(t.id, None)
                continue
            if isinstance(st, (ast.Expr, ast.Pass, ast.AnnAssign, ast.AugAssign)):
                if isinstance(st, ast.AugAssign) and isinstance(st.target, ast.Name):
                    self.env.pop(st.target.id, None)
                continue
            raise AnalysisError(f"encoder statement not understood by the string evaluator: {unparse(st)[:60]}")
        return self.returns
