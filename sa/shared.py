"""Clauses shared between properties.

A property's statement often leans on a mechanism that another property's rule module already decides (the journal's
commit discipline is C08's clause, but C05's "can be read back from the journal" needs it too).  Instead of
duplicating such a rule, the owning module is run on the same parsed tree and the listed rule instances are counted
and reported under the property at hand as well, with their own rule id (`C08.commit-postdominates-dml::...`).

Only clauses that are a *necessary condition* of the borrowing property are listed, each with the reason.
A finding that the owner lists as a known finding is the owner's business and is not repeated here.
"""
from __future__ import annotations

import importlib
import re

from . import core

# borrowing property -> [(owner, rule id, instance regex or None, why it is a necessary condition here)]
SHARED = {
    "C01": [("C02", "C02.frame-shape", None, "decode(encode(m)) can only return m if the encoder's frame has the shape the decoder parses"),
            ("C18", "C18.stored-as-string", r"add_group|set_group", "the decoder builds the group structure through add_group: the item it hands over must be the one stored")],
    "C02": [("C06", "C06.header-handover", None, "a replayed frame is handed to the transport too: its old framing fields must be gone before it is re-encoded"),
            ("C06", "C06.idempotent-marking", None, "same: PossDup/OrigSendingTime marking happens on the frame that goes out")],
    "C05": [("C01", "C01.seqnum-selection", None, "a new message leaves with the allocated number only if the encoder selects it"),
            ("C08", "C08.commit-postdominates-dml", r"persist_msg", "'can be read back from the journal' needs the row and the counter to be committed when the send returns"),
            ("C13", "C13.isolation", None, "the journal entry of this session must not be removable by an operation on another session / direction"),
            ("C14", "C14.save-rewind-atomic", None, "a number handed out while the resend handler is suspended must not be handed out again after its restore")],
    "C06": [("C04", "C04.single-resend-request", r"_process_resend", "'the connection state is what it was before': serving a ResendRequest must not close a gap the peer has not filled"),
            ("C05", "C05.same-bytes", None, "a retransmission must itself be journaled, or the next ResendRequest for the range cannot be answered"),
            ("C13", "C13.isolation", None, "the rewind goes through set_seq_num: it may only touch this session's outbound tail"),
            ("C12", "C12.liveness-bookkeeping", r"heartbeat_timer_task", "no new session message may be numbered while the counter is rewound for a replay")],
    "C08": [("C13", "C13.isolation", None, "a completed store must stay retrievable: no statement may delete rows of another session / direction")],
    "C09": [("C04", "C04.single-resend-request", r"EndSeqNo", "after a restart the gap must be requested open-ended or messages above the revealing one are lost"),
            ("C13", "C13.duplicate-store", r"INSERT on every path", "every frame that was sent is in the journal the new object is built from")],
    "C10": [("C01", "C01.group-table", r"FTag\[__eq__|FMsg\[exact", "the decoder recognises BodyLength / CheckSum / MsgType by comparing tags with the enum: the comparison must be exact")],
    "C11": [("C06", "C06.bracket", r"RESENDREQ_HANDLING", "a finished (or failed) replay must not put a disconnected connection back to ACTIVE")],
    "C12": [("C11", "C11.disconnect-final", r"cleared on every exit", "a disconnect that failed once must not disable the watchdog's later disconnect")],
    "C13": [("C05", "C05.stored-equals-last", None, "storing number n makes n+1 the direction's next number")],
    "C14": [("C09", "C09.restore-is-last", None, "after the tasks finish the stored next outbound number is the highest sent plus one"),
            ("C12", "C12.liveness-bookkeeping", r"heartbeat_timer_task", "the heartbeat task must not draw a number while the reader has the counter rewound"),
            ("C01", "C01.seqnum-selection", None, "only retransmissions reuse a number: the encoder's choice of MsgSeqNum")],
    "C15": [("C19", "C19.enumerations-exact", None, "'value outside the enumeration is rejected'"),
            ("C19", "C19.lexical-guard", None, "'value outside the declared type is rejected'"),
            ("C19", "C19.datatype-options", None, "'value outside the declared type is rejected'")],
    "C17": [("C18", "C18.stored-as-string", r"set\[value", "price / quantity comparisons of the order go through the container's string form")],
    "C18": [("C01", "C01.group-table", r"FTag\[", "'whether the tag is given as int, decimal string or tag enum': the enum's values are the decimal strings, pairwise distinct")],
    "C19": [("C15", "C15.check-matrix", r"value check", "the value check decides nothing if a path through the validator skips it")],
    "C20": [("C17", "C17.report-absorbed", r"order_id", "'processed by the order object': a fabricated reject must not change the order's identity")],
}

_cache: dict = {}


def owner_ctx(repo, owner: str, tier: str, seed: int):
    key = (id(repo), owner)
    if key not in _cache:
        sub = core.Ctx(owner, repo, tier, seed)
        sub.verbose = False
        err = None
        try:
            importlib.import_module(f"rules.{owner.lower()}").run(sub)
        except core.AnalysisError as exc:
            err = str(exc)
        except Exception as exc:  # noqa
            err = f"internal error: {exc!r}"
        _cache[key] = (sub, err)
    return _cache[key]


# enums whose members the session-layer rules tell apart BY NAME (typestate of the connection, kind of a message)
NAME_ENUMS = ("ConnectionState", "ConnectionRole", "FMsg")
NAME_SENSITIVE = ("C04", "C05", "C06", "C09", "C11", "C12", "C14")


def enum_alias_guard(pid: str, repo) -> None:
    """Two members of an Enum with equal values are one member at run time (the later name is an alias).  A typestate analysis that keeps
    `ConnectionState.A` and `.B` apart by name is wrong about such a program in either direction, so it does not decide it."""
    import ast
    if pid not in NAME_SENSITIVE:
        return
    for cname in NAME_ENUMS:
        c = repo.classes.get(cname)
        if c is None:
            continue
        first = {}
        for st in c.body:
            if isinstance(st, ast.Assign) and len(st.targets) == 1 and isinstance(st.targets[0], ast.Name) and isinstance(st.value, ast.Constant):
                if st.value.value in first:
                    raise core.AnalysisError(f"{cname}.{st.targets[0].id} and {cname}.{first[st.value.value]} have the same value {st.value.value!r}: at run time "
                                             "they are one member (an alias), the rules of this property distinguish them by name - not decided")
                first[st.value.value] = st.targets[0].id


def run_property(pid: str, ctx) -> None:
    """The property's own rule module, then the clauses it borrows."""
    enum_alias_guard(pid, ctx.repo)
    importlib.import_module(f"rules.{pid.lower()}").run(ctx)
    borrow(pid, ctx)


def borrow(pid: str, ctx) -> None:
    shares = SHARED.get(pid, ())
    if not shares:
        return
    known = {(k["property"], k["key"]) for k in core.load_known().get("findings", [])}
    listed = []
    for owner, rule, rx, why in shares:
        sub, err = owner_ctx(ctx.repo, owner, ctx.tier, ctx.seed)
        if err is not None and rule not in sub.instances:
            ctx.note(f"shared clause {rule} not evaluated: {owner}'s analysis stopped ({err[:120]})")
            continue
        ctx.rule_texts.setdefault(rule, f"[shared with {owner}] {sub.rule_texts.get(rule, '')} - needed here because: {why}")
        n = 0
        bad = [f for f in sub.findings if f.rule == rule and (rx is None or re.search(rx, f.construct)) and (owner, f.key) not in known]
        # instances examined by the owner for that rule (the instance regex narrows findings; counts are the owner's)
        n = sub.instances.get(rule, 0)
        ctx.instances[rule] = ctx.instances.get(rule, 0) + n
        ctx.obligations += n
        ctx.evaluations += n
        ctx.discharged += n - len([f for f in sub.findings if f.rule == rule])
        for f in bad:
            ctx.findings.append(f)
        listed.append({"owner": owner, "rule": rule, "instances": n, "findings": len(bad), "why": why})
        if err is not None:
            ctx.note(f"{owner}'s analysis stopped after {rule} was evaluated ({err[:100]})")
    ctx.extra["shared_clauses"] = listed
