"""Shared view of ``Codec.decode`` / ``socket_read_task`` for C01, C03 and C10."""
from __future__ import annotations

import ast
import re

from .cfg import CFG
from .core import AnalysisError, unparse, walk_no_nested
from .guards import derivation, reaching_defs

def stores_of(node):
    from .guards import stores
    return stores(node)


DEC = "Codec.decode"
READER = "AsyncFIXConnection.socket_read_task"


class DecoderView:
    def __init__(self, repo):
        self.repo = repo
        self.fn = repo.func(DEC)
        self.cfg = CFG(self.fn)
        args = [a.arg for a in self.fn.args.args]
        if len(args) < 2:
            raise AnalysisError("Codec.decode lost its buffer parameter")
        self.buf = args[1]
        self.silent = args[2] if len(args) > 2 else None
        self.soh = self._fold_soh()
        self.rd = reaching_defs(self.cfg)
        self.returns = []
        for n in self.cfg.nodes:
            if n.kind == "stmt" and isinstance(n.ast, ast.Return):
                v = n.ast.value
                if not (isinstance(v, ast.Tuple) and len(v.elts) == 3):
                    raise AnalysisError(f"decode return at line {n.line} is not a 3-tuple")
                self.returns.append(n)
        if not self.returns:
            raise AnalysisError("decode has no return statement")

    # the separator attribute folded from Codec.__init__
    def _fold_soh(self):
        init = self.repo.func("Codec.__init__")
        for n in walk_no_nested(init):
            if isinstance(n, ast.Assign) and len(n.targets) == 1 and unparse(n.targets[0]) == "self.SOH" \
                    and isinstance(n.value, ast.Constant) and isinstance(n.value.value, str):
                return n.value.value
        raise AnalysisError("Codec.__init__ no longer assigns the constant self.SOH")

    def fold_str(self, node):
        """Fold a str/bytes expression made of constants, self.SOH and + ; None if it does not fold."""
        if isinstance(node, ast.Constant) and isinstance(node.value, (str, bytes)):
            return node.value
        if unparse(node) == "self.SOH":
            return self.soh
        if isinstance(node, ast.Name):
            # a local bound once to a foldable value (e.g. SEP = self.SOH)
            vals = derivation(self.fn, node.id, 0).get(node.id, [])
            if len(vals) == 1:
                return self.fold_str(vals[0])
            return None
        if isinstance(node, ast.Call) and isinstance(node.func, ast.Attribute) and node.func.attr in ("decode", "encode") and not node.keywords \
                and (not node.args or (len(node.args) == 1 and isinstance(node.args[0], ast.Constant) and str(node.args[0].value).lower() in
                                       ("ascii", "latin-1", "latin1", "utf-8", "utf8", "iso-8859-1"))):
            base = self.fold_str(node.func.value)
            if isinstance(base, bytes) and node.func.attr == "decode" and base.isascii():
                return base.decode("ascii")
            if isinstance(base, str) and node.func.attr == "encode" and base.isascii():
                return base.encode("ascii")
            return None
        if isinstance(node, ast.BinOp) and isinstance(node.op, ast.Add):
            a, b = self.fold_str(node.left), self.fold_str(node.right)
            if a is not None and b is not None and type(a) is type(b):
                return a + b
        if isinstance(node, ast.Subscript) and isinstance(node.slice, ast.Slice):
            base = self.fold_str(node.value)
            if base is not None and node.slice.lower is None and node.slice.step is None:
                return None  # prefix of a literal with a dynamic bound: not a fixed string
        return None

    def is_message_return(self, rnode):
        e0 = rnode.ast.value.elts[0]
        return not (isinstance(e0, ast.Constant) and e0.value is None)

    def searches(self):
        """Every ``X.find(...)`` / ``X.index(...)`` / ``X.rfind`` call: (call, receiver text, folded literal)."""
        out = []
        for n in walk_no_nested(self.fn):
            if isinstance(n, ast.Call) and isinstance(n.func, ast.Attribute) and n.func.attr in ("find", "index", "rfind", "rindex") and n.args:
                out.append((n, unparse(n.func.value), self.fold_str(n.args[0])))
        return out

    def resync_scans(self):
        """Re-synchronisation scans inside a bad frame: ranged searches (over the buffer or the text cut from it) for the frame-start
        marker itself, with a lower bound other than 0, whose result does not bound any slice (it only says how much of a bad frame
        is dropped; it never cuts the frame that is parsed)."""
        start, _r, marker = self.start_search()
        mtxt = marker.decode("latin-1") if isinstance(marker, bytes) else marker
        if not mtxt:
            return []
        cut_names = set()
        for n in walk_no_nested(self.fn):
            if isinstance(n, ast.Slice):
                for b in (n.lower, n.upper):
                    if b is not None:
                        for x in ast.walk(b):
                            if isinstance(x, ast.Name):
                                cut_names |= set(derivation(self.fn, x.id).keys())
        out = []
        for c, r, lit in self.searches():
            lt = lit.decode("latin-1") if isinstance(lit, bytes) else lit
            if c is start or len(c.args) < 2 or lt != mtxt or (isinstance(c.args[1], ast.Constant) and c.args[1].value == 0):
                continue
            par = getattr(c, "_parent", None)
            tgt = par.targets[0].id if isinstance(par, ast.Assign) and len(par.targets) == 1 and isinstance(par.targets[0], ast.Name) else None
            if tgt is None or tgt in cut_names:
                continue
            out.append(c)
        return out

    def start_search(self):
        """The frame-start search: the one search over the whole buffer (no range arguments).
        Ranged searches on the buffer are re-synchronisation scans inside a bad frame."""
        cands = [(c, r, lit) for c, r, lit in self.searches() if r == self.buf and len(c.args) == 1]
        if len(cands) != 1:
            raise AnalysisError(f"decode: expected one frame-start search over the whole buffer, found {len(cands)}")
        return cands[0]

    def length_class(self, rnode):
        """Symbolic class of the consumed length on a return path (second tuple element):
        ALL | ALL-BUT-TAIL | KEEP | FRAME | OTHER:<text>."""
        e = rnode.ast.value.elts[1]
        t = unparse(e)
        if t == f"len({self.buf})":
            return "ALL"
        if isinstance(e, ast.Name):
            # a local with several live definitions, each of them the whole buffer or a position found in it: between 0 and len(buffer) either way
            live = [d for d in self.rd[rnode.id].get(e.id, set()) if d not in self.infeasible_defs(rnode)]
            vals = [getattr(self.cfg.nodes[d].ast, "value", None) for d in live]
            if len(vals) > 1 and all(v is not None for v in vals):
                kinds = set()
                for v, d in zip(vals, live):
                    if unparse(v) == f"len({self.buf})":
                        kinds.add("ALL")
                    else:
                        def is_pos(v_, at_, depth=0):
                            # a position found in the buffer by a search (whatever bounds the search was given)
                            if isinstance(v_, ast.Call) and isinstance(v_.func, ast.Attribute) and v_.func.attr in ("find", "rfind", "index", "rindex") \
                                    and unparse(v_.func.value) == self.buf:
                                return True
                            if isinstance(v_, ast.Name) and depth < 3:
                                ds_ = self.rd[at_].get(v_.id, set())
                                return bool(ds_) and all(getattr(self.cfg.nodes[d_].ast, "value", None) is not None
                                                         and is_pos(self.cfg.nodes[d_].ast.value, d_, depth + 1) for d_ in ds_)
                            return False
                        kinds.add("KEEP" if is_pos(v, d) else "?")
                if kinds == {"ALL", "KEEP"}:
                    return "ALL-OR-KEEP"
        if isinstance(e, ast.BinOp) and isinstance(e.op, ast.Sub) and unparse(e.left) == f"len({self.buf})":
            return "ALL-BUT-TAIL"
        # only sums keep 0 <= consumed <= len(buffer) visible
        exprs = [e]
        dead = self.infeasible_defs(rnode)
        for x in ast.walk(e):
            if isinstance(x, ast.Name):
                for d in self.rd[rnode.id].get(x.id, set()):
                    if d in dead:
                        continue
                    v = getattr(self.cfg.nodes[d].ast, "value", None)
                    if v is not None:
                        exprs.append(v)
                    a = self.cfg.nodes[d].ast
                    if isinstance(a, ast.AugAssign) and not isinstance(a.op, ast.Add):
                        return "OTHER:" + t
        def value_nodes(ex):
            # the value-producing parts: the test of a conditional expression only selects
            todo = [ex]
            while todo:
                x = todo.pop()
                yield x
                if isinstance(x, ast.IfExp):
                    todo += [x.body, x.orelse]
                elif isinstance(x, ast.Compare):
                    continue
                else:
                    todo += list(ast.iter_child_nodes(x))

        for ex in exprs:
            for x in value_nodes(ex):
                if isinstance(x, ast.BinOp) and not isinstance(x.op, ast.Add):
                    return "OTHER:" + t
                if isinstance(x, ast.UnaryOp) and isinstance(x.op, ast.USub):
                    return "OTHER:" + t
        src = self.sources(e, rnode.id)
        if src and src <= {"START"}:
            return "KEEP"
        if "START" in src and src & {"BODYLEN", "TEXTSEARCH", "TEXTLEN"} and "BUFLEN" not in src:
            return "FRAME"
        return "OTHER:" + t

    def infeasible_defs(self, rnode):
        """Definitions that the reaching-definitions analysis lets reach `rnode` but that cannot: the block that makes the definition also
        sets a local s to a constant c, nothing re-assigns s on the way, and `rnode` is dominated by the edge of a test on which s == c
        is known to be false (`valid_idx = -1; n = ...` in one arm, `if valid_idx == -1: return` behind it: the arm's `n` is dead below)."""
        from .guards import facts
        g = self.cfg
        key = rnode.id
        cache = self.__dict__.setdefault("_infeasible", {})
        if key in cache:
            return cache[key]
        out = set()
        guards = []
        for t_node in g.nodes:
            if t_node.kind != "test":
                continue
            for lab in ("true", "false"):
                if g.dominated_by(rnode.id, t_node.id, lab, exc=False):
                    for a, tv in facts(t_node.ast, lab == "true"):
                        m = re.fullmatch(r"(\w+) (==|!=) (-?\d+)", a)
                        if m and ((m.group(2) == "==" and not tv) or (m.group(2) == "!=" and tv)):
                            guards.append((t_node.id, m.group(1), m.group(3)))
        if guards:
            for n in g.nodes:
                if n.kind != "stmt" or not isinstance(n.ast, ast.Assign):
                    continue
                blk = None
                p = getattr(n.ast, "_parent", None)
                for fld in ("body", "orelse", "finalbody"):
                    lst = getattr(p, fld, None)
                    if isinstance(lst, list) and n.ast in lst:
                        blk = lst
                if not blk:
                    continue
                for tid, sname, cval in guards:
                    consts = [st for st in blk if isinstance(st, ast.Assign) and len(st.targets) == 1 and isinstance(st.targets[0], ast.Name) and st.targets[0].id == sname
                              and unparse(st.value) == cval]
                    if not consts:
                        continue
                    cids = [i for st in consts for i in g.ids_of(st)]
                    others = [o.id for o in g.nodes if o.kind in ("stmt", "for") and o.id not in cids and sname in stores_of(o)]
                    if any(any(g.reaches(c_, o, exc=False) for c_ in cids) and g.reaches(o, tid, exc=False) for o in others):
                        continue
                    if all(g.reaches(c_, tid, exc=False) or g.reaches(n.id, c_, exc=False) for c_ in cids):
                        out.add(n.id)
        # ... and: the definition stands under a test of a local, the use under the opposite outcome of the same test text, and the local
        # is not re-assigned in between
        def norm(a, tv):
            return (a.replace(" != ", " == "), not tv) if " != " in a else (a, tv)
        use_facts = {}
        for t_node in g.nodes:
            if t_node.kind == "test":
                for lab in ("true", "false"):
                    if g.dominated_by(rnode.id, t_node.id, lab, exc=False):
                        for a, tv in facts(t_node.ast, lab == "true"):
                            use_facts.setdefault(norm(a, tv), t_node.id)
        for n in g.nodes:
            if n.kind != "stmt" or not isinstance(n.ast, ast.Assign) or n.id in out:
                continue
            for t_node in g.nodes:
                if t_node.kind != "test":
                    continue
                for lab in ("true", "false"):
                    if not g.dominated_by(n.id, t_node.id, lab, exc=False):
                        continue
                    for a0, tv0 in facts(t_node.ast, lab == "true"):
                        a, tv = norm(a0, tv0)
                        if (a, not tv) in use_facts and re.fullmatch(r"\w+ (==|<|>|<=|>=) -?\w+", a):
                            names_ = {x.id for x in ast.walk(t_node.ast) if isinstance(x, ast.Name)}
                            tid = use_facts[(a, not tv)]
                            redefs = [o.id for o in g.nodes if o.kind in ("stmt", "for") and names_ & stores_of(o)
                                      and g.reaches(n.id, o.id, exc=False) and g.reaches(o.id, tid, exc=False)]
                            if not redefs and (tid == t_node.id or g.reaches(n.id, tid, exc=False)):
                                out.add(n.id)
        cache[key] = out
        return out

    def _kinds(self, e, out):
        for x in ast.walk(e):
            if isinstance(x, ast.Call):
                if isinstance(x.func, ast.Attribute) and x.func.attr in ("find", "index", "rfind", "rindex"):
                    out.add("START" if unparse(x.func.value) == self.buf else "TEXTSEARCH")
                elif isinstance(x.func, ast.Name) and x.func.id == "len" and x.args:
                    out.add("BUFLEN" if unparse(x.args[0]) == self.buf else "TEXTLEN")
                elif isinstance(x.func, ast.Name) and x.func.id == "int":
                    out.add("BODYLEN")

    def sources(self, e, at, _dead=None, _depth=0, _seen=None):
        """Source kinds the value of ``e`` (evaluated at CFG node ``at``) may depend on: names are resolved through the definitions that
        reach ``at`` (and from each of those through the definitions reaching it, and so on); definitions that cannot reach the node the
        question was asked for (see infeasible_defs) are left out."""
        out = set()
        self._kinds(e, out)
        if _dead is None:
            _dead = self.infeasible_defs(self.cfg.nodes[at]) if self.cfg.nodes[at].kind == "stmt" else set()
        _seen = set() if _seen is None else _seen
        for x in ast.walk(e):
            if not isinstance(x, ast.Name) or x.id in (self.buf, "self", "len", "int"):
                continue
            for d in self.rd[at].get(x.id, set()):
                if d in _dead or (d, x.id) in _seen:
                    continue
                _seen.add((d, x.id))
                a = self.cfg.nodes[d].ast
                val = getattr(a, "value", None)
                if val is None:
                    continue
                if _depth < 8:
                    out |= self.sources(val, d, _dead, _depth + 1, _seen)
                else:
                    self._kinds(val, out)
                    for y in ast.walk(val):
                        if isinstance(y, ast.Name) and y.id != x.id:
                            for vals in derivation(self.fn, y.id).values():
                                for v in vals:
                                    self._kinds(v, out)
        return out


class ReaderView:
    def __init__(self, repo):
        self.repo = repo
        self.fn = repo.func(READER)
        self.cfg = CFG(self.fn)
        self.decode_calls = [c for c in walk_no_nested(self.fn) if isinstance(c, ast.Call)
                             and isinstance(c.func, ast.Attribute) and c.func.attr == "decode"
                             and "codec" in unparse(c.func.value).lower()]
        if len(self.decode_calls) != 1:
            raise AnalysisError(f"socket_read_task: expected one codec.decode call, found {len(self.decode_calls)}")
        self.decode_call = self.decode_calls[0]
        self.decode_nodes = self.cfg.ids_of(self.decode_call)
        # the reader the rules know: decode(<the receive buffer attribute>) whose three results are bound to three names in one statement
        par = getattr(self.decode_call, "_parent", None)
        a0 = self.decode_call.args[0] if self.decode_call.args else None
        if not (isinstance(par, ast.Assign) and isinstance(par.targets[0], ast.Tuple) and len(par.targets[0].elts) == 3):
            raise AnalysisError("socket_read_task: the decode result is no longer unpacked into three names")
        # the decoder's argument: the receive buffer attribute itself.  A local (or a slice of one) that is *built from* an attribute of the
        # connection is a reader that keeps a cursor into a copy of the buffer: its clauses (rejoin, advance, progress) have another shape than
        # the rules know - not decided.  An argument that does not involve the connection's state at all stays with the rules (C03 reports it).
        a0u = a0.args[0] if isinstance(a0, ast.Call) and isinstance(a0.func, ast.Name) and a0.func.id in ("bytes", "bytearray") and len(a0.args) == 1 else a0
        if a0 is not None and not (isinstance(a0u, ast.Attribute) and isinstance(a0u.value, ast.Name) and a0u.value.id == "self"):
            seen, work, from_self = set(), [x.id for x in ast.walk(a0) if isinstance(x, ast.Name)], False
            if any(isinstance(x, ast.Attribute) and isinstance(x.value, ast.Name) and x.value.id == "self" for x in ast.walk(a0)):
                from_self = True
            while work and not from_self:
                nm = work.pop()
                if nm in seen or nm == "self":
                    continue
                seen.add(nm)
                for st in walk_no_nested(self.fn):
                    if isinstance(st, (ast.Assign, ast.AugAssign, ast.AnnAssign)) and getattr(st, "value", None) is not None:
                        tg = st.targets if isinstance(st, ast.Assign) else [st.target]
                        if any(isinstance(x, ast.Name) and x.id == nm for t in tg for x in ast.walk(t)):
                            for x in ast.walk(st.value):
                                if isinstance(x, ast.Attribute) and isinstance(x.value, ast.Name) and x.value.id == "self" and not isinstance(getattr(x, "_parent", None), ast.Call):
                                    if isinstance(x.ctx, ast.Load) and not (isinstance(getattr(x, "_parent", None), ast.Attribute)):
                                        from_self = True
                                elif isinstance(x, ast.Name):
                                    work.append(x.id)
            if from_self:
                raise AnalysisError(f"socket_read_task: the decoder is given `{unparse(a0)[:40]}`, a value built from the connection's state through locals "
                                    "(a cursor into a copy of the receive buffer?): this reader shape is not modelled")
def extent_findings(dv: DecoderView):
    """C01 rule 1 / C03 shared construct: the frame extent is delimited only by SOH-anchored
    searches (next-frame marker, CheckSum trailer), never by a bare marker search, and not by
    the buffer end when a trailer is present.  Returns (instances, findings) where findings are
    (construct, what, where-node)."""
    inst, bad = 0, []
    rs_ = dv.resync_scans()
    text_searches = [(c, r, lit) for c, r, lit in dv.searches() if r != dv.buf and c not in rs_]
    sc_, _sr, marker = dv.start_search()
    runtime_marker = None
    if not isinstance(marker, (bytes, str)) or not marker:
        # a marker bound at run time (e.g. derived from the protocol's BeginString): the next-frame search must use the same expression
        runtime_marker = unparse(sc_.args[0])
        mtxt = None
    else:
        mtxt = marker.decode("latin-1") if isinstance(marker, bytes) else marker
    for c, r, lit in text_searches:
        inst += 1
        if lit is None:
            raise AnalysisError(f"decode: the frame-extent search pattern `{unparse(c.args[0])[:50]}` does not fold to a literal: what delimits a frame is not visible")
        elif not lit.startswith(dv.soh):
            bad.append((f"search[{lit!r}]", f"the frame extent depends on a search for the bare text {lit!r}, which can occur inside a field value "
                                            "(values never contain SOH, so only SOH-anchored patterns are unambiguous): the value is cut there", c))
    # the extent variable: upper bound of the slice of the text that is split into fields
    split_bound = None
    for n in walk_no_nested(dv.fn):
        if isinstance(n, ast.Call) and isinstance(n.func, ast.Attribute) and n.func.attr == "split" and n.args and dv.fold_str(n.args[0]) == dv.soh:
            recv = n.func.value
            if isinstance(recv, ast.Subscript) and isinstance(recv.slice, ast.Slice) and recv.slice.upper is not None:
                split_bound = recv.slice.upper
            else:
                split_bound = False
    inst += 1
    if split_bound is None:
        raise AnalysisError("decode: the split of the frame text on SOH was not found")
    if split_bound is False:
        bad.append(("split[whole text]", "the text split into fields runs to the end of the buffer: bytes of the next frame become fields of this one", dv.fn))
        return inst, bad
    kinds_lits = set()
    names = {x.id for x in ast.walk(split_bound) if isinstance(x, ast.Name)}
    deriv = {}
    for nm in names:
        deriv.update(derivation(dv.fn, nm))
    for vals in deriv.values():
        for v in vals:
            for x in ast.walk(v):
                if isinstance(x, ast.Call) and isinstance(x.func, ast.Attribute) and x.func.attr in ("find", "index") and x.args:
                    kinds_lits.add(dv.fold_str(x.args[0]))
    inst += 1
    if mtxt is not None:
        next_ok = dv.soh + mtxt in kinds_lits
    else:
        # text searches whose pattern is `SOH + <the marker expression (decoded)>`: accept any search pattern that mentions the marker expression
        core = re.sub(r"\.(decode|encode)\(.*\)$", "", runtime_marker)
        next_ok = any(isinstance(x, ast.Call) and isinstance(x.func, ast.Attribute) and x.func.attr in ("find", "index") and x.args and core in unparse(x.args[0])
                      and unparse(x.func.value) != dv.buf for vals in deriv.values() for v in vals for x in ast.walk(v))
    if not next_ok:
        bad.append(("extent[next-frame marker]", "the frame extent is not bounded by the SOH-anchored start marker of the next frame", dv.fn))
    inst += 1
    if dv.soh + "10=" not in kinds_lits:
        bad.append(("extent[trailer]", "the frame extent is not cut at the SOH-anchored CheckSum trailer: with the start of the next frame already in the "
                                       "buffer the fragment is parsed as a field of this frame, which then fails its checksum and is lost", dv.fn))
    # the trailer search covers the frame from its first byte (a start argument other than 0 skips the trailer of a frame in front of junk)
    for n in walk_no_nested(dv.fn):
        if isinstance(n, ast.Call) and isinstance(n.func, ast.Attribute) and n.func.attr in ("find", "index") and len(n.args) >= 2 \
                and dv.fold_str(n.args[0]) == dv.soh + "10=" and isinstance(n.args[1], (ast.Constant, ast.UnaryOp)):
            lo_ = n.args[1].value if isinstance(n.args[1], ast.Constant) else (-n.args[1].operand.value if isinstance(n.args[1].operand, ast.Constant)
                                                                              and isinstance(n.args[1].operand.value, int) else None)
            if isinstance(lo_, int) and not isinstance(lo_, bool) and lo_ != 0 and not 0 < lo_ <= 8:
                bad.append(("extent[trailer searched from the frame's first byte]",
                            f"the CheckSum trailer is searched from position {lo_} of the frame text, not from its start: the frame's own trailer is not seen and the "
                            "extent runs on to the next frame marker, junk between the two included", n))
    # ... on every path: the trailer is searched for whenever the text is split (not only when no next frame was seen), and where
    # the trailer and its closing SOH were found nothing else than a value computed from that position is the extent
    inst += 1
    g = dv.cfg
    split_nodes = [n.id for n in g.nodes if n.kind in ("stmt", "test") and n.ast is not None and any(
        isinstance(x, ast.Call) and isinstance(x.func, ast.Attribute) and x.func.attr == "split" and x.args and dv.fold_str(x.args[0]) == dv.soh
        and isinstance(x.func.value, ast.Subscript) for x in walk_no_nested(n.ast))]
    trailer_nodes, trailer_vars = set(), set()
    for n in g.nodes:
        if n.kind == "stmt" and isinstance(n.ast, ast.Assign) and isinstance(n.ast.value, ast.Call) and isinstance(n.ast.value.func, ast.Attribute) \
                and n.ast.value.func.attr in ("find", "index") and n.ast.value.args and dv.fold_str(n.ast.value.args[0]) == dv.soh + "10=":
            trailer_nodes.add(n.id)
            trailer_vars |= {unparse(t) for t in n.ast.targets}
    if split_nodes and trailer_nodes:
        w = g.witness_path(g.entry, split_nodes, avoid=trailer_nodes, exc=False)
        if w is not None:
            bad.append(("extent[trailer searched on every path]",
                        "a path reaches the split of the frame text without having searched for the frame's own CheckSum trailer (e.g. when the start of a later "
                        "frame was seen first): with bytes between two frames in the buffer the first frame is parsed together with them, fails and is lost", dv.fn))
        # where the trailer's closing SOH was found, the extent is redefined from it before the split
        end_vars = set()
        for n in g.nodes:
            if n.kind == "stmt" and isinstance(n.ast, ast.Assign) and isinstance(n.ast.value, ast.Call) and isinstance(n.ast.value.func, ast.Attribute) \
                    and n.ast.value.func.attr in ("find", "index") and n.ast.value.args and dv.fold_str(n.ast.value.args[0]) == dv.soh \
                    and any(isinstance(x, ast.Name) and x.id in trailer_vars for a in n.ast.value.args[1:] for x in ast.walk(a)):
                end_vars |= {unparse(t) for t in n.ast.targets}
        ext_defs = {n.id for n in g.nodes if n.kind == "stmt" and isinstance(n.ast, ast.Assign) and {unparse(t) for t in n.ast.targets} & names
                    and any(isinstance(x, ast.Name) and x.id in end_vars for x in ast.walk(n.ast.value))}
        inst += 1
        for t in g.nodes:
            if t.kind == "test" and any(re.fullmatch(rf"{re.escape(v)} != -1", unparse(t.ast)) for v in end_vars):
                for d, lab in g.succs(t.id, exc=False):
                    if lab == "true" and d not in ext_defs:
                        w2 = g.witness_path(d, split_nodes, avoid=ext_defs, exc=False)
                        if w2 is not None:
                            bad.append(("extent[trailer found => extent ends there]",
                                        "the closing SOH of the frame's CheckSum trailer was found but a path reaches the split without taking the extent from it", t.ast))
    # the extent ends right behind an SOH: every value the split bound can have is `<position of an SOH-anchored search hit> + 1` (the hit
    # is the SOH that closes the frame / its trailer) or the length of the text; another offset puts the first byte of the next frame into
    # this one or leaves the closing SOH out.  Values whose form is not `search hit / len(text) + constant` are not judged.
    inst += 1
    for sn in split_nodes:
        for base, off, where in _linear_values(dv, split_bound, sn, 0):
            if base is None:
                continue
            kind, what = base
            if kind == "search" and isinstance(what, str) and what.startswith(dv.soh) and off != 1:
                bad.append((f"extent[ends behind the SOH found: hit{off:+d}]",
                            f"the frame extent is taken as the position of the `{what!r}` hit {off:+d}, not + 1 (right behind that SOH): "
                            + ("the first byte(s) of the next frame are counted to this frame and are lost with it" if off > 1 else
                               "the frame's closing SOH is left in the buffer"), where))
            elif kind == "len" and off != 0:
                bad.append((f"extent[whole text{off:+d}]", f"the frame extent without a delimiter is len(text){off:+d}, not the text's length", where))
    # the returned bytes are the buffer slice [start : start + extent]
    inst += 1
    for r in dv.returns:
        if not dv.is_message_return(r):
            continue
        e2 = r.ast.value.elts[2]
        ok = False
        if isinstance(e2, ast.Name):
            for v in derivation(dv.fn, e2.id, 0).get(e2.id, []):
                if isinstance(v, ast.Subscript) and unparse(v.value) == dv.buf and isinstance(v.slice, ast.Slice) \
                        and v.slice.lower is not None and v.slice.upper is not None:
                    lo = dv.sources(v.slice.lower, r.id)
                    up_names = {x.id for x in ast.walk(v.slice.upper) if isinstance(x, ast.Name)}
                    ext_names = set(names)
                    # upper bound = start + extent (directly or through one local)
                    flat = set(up_names)
                    for nm in up_names:
                        for vv in derivation(dv.fn, nm, 0).get(nm, []):
                            flat |= {x.id for x in ast.walk(vv) if isinstance(x, ast.Name)}
                    lo_names = {x.id for x in ast.walk(v.slice.lower) if isinstance(x, ast.Name)}
                    ok = lo <= {"START"} and bool(lo) and bool(ext_names & flat) and bool(lo_names & flat)
        if not ok:
            bad.append(("returned-bytes", "the bytes returned as third element are not the buffer slice [frame start : frame start + frame extent]", r.ast))
    return inst, bad


def _linear_values(dv, expr, at, depth, _seen=None):
    """Values of an integer expression at CFG node `at` as (base, offset, defining node): base is ('search', <folded pattern>) for a find/index
    call on a text, ('len', <text>) for len(<name>), ('const', None) for a plain number, or None when the form is not linear in one of those."""
    _seen = _seen or set()
    g = dv.cfg
    if isinstance(expr, ast.Constant) and isinstance(expr.value, int) and not isinstance(expr.value, bool):
        return [(("const", None), expr.value, expr)]
    if isinstance(expr, ast.UnaryOp) and isinstance(expr.op, ast.USub) and isinstance(expr.operand, ast.Constant) and isinstance(expr.operand.value, int):
        return [(("const", None), -expr.operand.value, expr)]
    if isinstance(expr, ast.BinOp) and isinstance(expr.op, (ast.Add, ast.Sub)):
        out = []
        for lb, lo_, lw in _linear_values(dv, expr.left, at, depth, _seen):
            for rb, ro, _rw in _linear_values(dv, expr.right, at, depth, _seen):
                sign = 1 if isinstance(expr.op, ast.Add) else -1
                if lb is None or rb is None:
                    out.append((None, 0, expr))
                elif rb[0] == "const":
                    out.append((lb, lo_ + sign * ro, lw if lb[0] != "const" else expr))
                elif lb[0] == "const" and sign == 1:
                    out.append((rb, lo_ + ro, _rw))
                else:
                    out.append((None, 0, expr))
        return out
    if isinstance(expr, ast.Call) and isinstance(expr.func, ast.Attribute) and expr.func.attr in ("find", "index", "rfind", "rindex") and expr.args:
        return [(("search", dv.fold_str(expr.args[0])), 0, expr)]
    if isinstance(expr, ast.Call) and isinstance(expr.func, ast.Name) and expr.func.id == "len" and len(expr.args) == 1 and isinstance(expr.args[0], ast.Name):
        return [(("len", expr.args[0].id), 0, expr)]
    if isinstance(expr, ast.Name) and depth < 6:
        out = []
        dead = dv.infeasible_defs(g.nodes[at]) if g.nodes[at].kind in ("stmt", "test", "return") else set()
        cands = set(dv.rd[at].get(expr.id, set()))
        for d in sorted(cands):
            if d in dead or (d, expr.id) in _seen:
                continue
            # (the reaching-definitions table keeps what reaches an augmented assignment alive behind it: a definition counts here only if a
            # path leads from it to `at` that passes no other definition of the name)
            others = cands - {d}
            if others and g.witness_path(d, [at], avoid=others, exc=False) is None:
                continue
            da = g.nodes[d].ast
            if isinstance(da, ast.Assign) and len(da.targets) == 1 and isinstance(da.targets[0], ast.Name) and da.targets[0].id == expr.id:
                out += _linear_values(dv, da.value, d, depth + 1, _seen | {(d, expr.id)})
            elif isinstance(da, ast.AugAssign) and isinstance(da.op, (ast.Add, ast.Sub)) and isinstance(da.target, ast.Name):
                out += _linear_values(dv, ast.BinOp(left=ast.Name(id=expr.id, ctx=ast.Load()), op=da.op, right=da.value), d, depth + 1, _seen | {(d, expr.id)})
            else:
                out.append((None, 0, da))
        return out or [(None, 0, expr)]
    return [(None, 0, expr)]


def linear_forms(dv, expr, at, depth=0, _seen=frozenset()):
    """The integer expression at CFG node `at` as a list of alternatives (one per combination of reaching definitions), each
    ({term text: coefficient}, constant); locals are followed through their definitions (kill-aware, see _linear_values), `len(<literal>)`
    folds, everything else that is not + / - / a number is an opaque term.  None when there are too many alternatives."""
    g = dv.cfg

    def const(c):
        return [({}, c)]
    if isinstance(expr, ast.Constant) and isinstance(expr.value, int) and not isinstance(expr.value, bool):
        return const(expr.value)
    if isinstance(expr, ast.UnaryOp) and isinstance(expr.op, ast.USub):
        sub = linear_forms(dv, expr.operand, at, depth, _seen)
        return None if sub is None else [({k: -v for k, v in t.items()}, -c) for t, c in sub]
    if isinstance(expr, ast.Call) and isinstance(expr.func, ast.Name) and expr.func.id == "len" and len(expr.args) == 1 \
            and isinstance(expr.args[0], ast.Constant) and isinstance(expr.args[0].value, (str, bytes)):
        return const(len(expr.args[0].value))
    if isinstance(expr, ast.BinOp) and isinstance(expr.op, (ast.Add, ast.Sub)):
        ls, rs = linear_forms(dv, expr.left, at, depth, _seen), linear_forms(dv, expr.right, at, depth, _seen)
        if ls is None or rs is None or len(ls) * len(rs) > 16:
            return None
        sign = 1 if isinstance(expr.op, ast.Add) else -1
        out = []
        for lt, lc in ls:
            for rt, rc in rs:
                t = dict(lt)
                for k, v in rt.items():
                    t[k] = t.get(k, 0) + sign * v
                out.append(({k: v for k, v in t.items() if v}, lc + sign * rc))
        return out
    if isinstance(expr, ast.Name) and depth < 6:
        cands = set(dv.rd[at].get(expr.id, set()))
        dead = dv.infeasible_defs(g.nodes[at])
        out = []
        for d in sorted(cands):
            if d in dead or (d, expr.id) in _seen:
                continue
            others = cands - {d}
            if others and g.witness_path(d, [at], avoid=others, exc=False) is None:
                continue
            da = g.nodes[d].ast
            if isinstance(da, ast.Assign) and len(da.targets) == 1 and isinstance(da.targets[0], ast.Name) and da.targets[0].id == expr.id \
                    and isinstance(da.value, (ast.BinOp, ast.Name, ast.Constant, ast.UnaryOp)):
                sub = linear_forms(dv, da.value, d, depth + 1, _seen | {(d, expr.id)})
            elif isinstance(da, ast.AugAssign) and isinstance(da.op, (ast.Add, ast.Sub)) and isinstance(da.target, ast.Name) and da.target.id == expr.id:
                sub = linear_forms(dv, ast.BinOp(left=ast.Name(id=expr.id, ctx=ast.Load()), op=da.op, right=da.value), d, depth + 1, _seen | {(d, expr.id)})
            else:
                sub = [({unparse(expr) + f"@{d}": 1}, 0)]
            if sub is None:
                return None
            out += sub
            if len(out) > 16:
                return None
        return out or [({unparse(expr): 1}, 0)]
    return [({unparse(expr): 1}, 0)]


def delimited_flags(dv: DecoderView):
    """Boolean locals that say 'the candidate frame is delimited in the buffer'.  Every definition is
      * `search_result != -1` for an SOH-anchored text search, or
      * the constant True under such a test, or
      * the constant False where nothing delimits the frame: the next-frame search failed AND the trailer search (or
        the search for the trailer's closing SOH) failed."""
    from .guards import facts
    out = set()
    kinds = {}  # search local -> 'next' | 'trailer' | 'end' | 'other'
    for n in walk_no_nested(dv.fn):
        if isinstance(n, ast.Assign) and len(n.targets) == 1 and isinstance(n.targets[0], ast.Name) and isinstance(n.value, ast.Call) \
                and isinstance(n.value.func, ast.Attribute) and n.value.func.attr in ("find", "index") and unparse(n.value.func.value) != dv.buf \
                and n.value.args and (dv.fold_str(n.value.args[0]) or "").startswith(dv.soh):
            needle = dv.fold_str(n.value.args[0])
            k = "end" if needle == dv.soh else ("trailer" if needle == dv.soh + "10=" else ("next" if needle.startswith(dv.soh + "8=") else "other"))
            kinds.setdefault(n.targets[0].id, set()).add(k)
    text_search_names = set(kinds)
    dv._search_kinds = kinds
    cands = {}
    for n in dv.cfg.nodes:
        if n.kind == "stmt" and isinstance(n.ast, ast.Assign) and len(n.ast.targets) == 1 and isinstance(n.ast.targets[0], ast.Name):
            cands.setdefault(n.ast.targets[0].id, []).append(n)
    for nm, nodes in cands.items():
        ok = True
        positive = False
        for n in nodes:
            v = n.ast.value
            fs = set()
            for t, lab in dv.cfg.guards(n.id, exc=False):
                fs |= facts(t, lab == "true")
            if isinstance(v, ast.Compare) and len(v.ops) == 1 and isinstance(v.ops[0], ast.NotEq) and isinstance(v.left, ast.Name) \
                    and v.left.id in text_search_names and unparse(v.comparators[0]) == "-1":
                positive = True
            elif isinstance(v, ast.Constant) and v.value is True:
                if not any(tv and a.endswith("!= -1") and a.split(" ")[0] in text_search_names for a, tv in fs):
                    ok = False
                positive = True
            elif isinstance(v, ast.Constant) and v.value is False:
                failed = {a.split(" ")[0] for a, tv in fs if (a.endswith("!= -1") and not tv) or (a.endswith("== -1") and tv)}
                failed_kinds = set().union(*[kinds.get(x, set()) for x in failed]) if failed else set()
                if not ("next" in failed_kinds and ({"trailer", "end"} & failed_kinds)):
                    # ... or it is the initial value where the next-frame search failed, overridden later by True where the trailer's closing
                    # SOH was found (the shape `flag = next != -1` ... `if end != -1: flag = True` written with constants)
                    later_true = False
                    for m in nodes:
                        if m is not n and isinstance(m.ast.value, ast.Constant) and m.ast.value.value is True and dv.cfg.reaches(n.id, m.id, exc=False):
                            fm = set()
                            for t2, lab2 in dv.cfg.guards(m.id, exc=False):
                                fm |= facts(t2, lab2 == "true")
                            ok_names = {a.split(" ")[0] for a, tv in fm if (a.endswith("!= -1") and tv) or (a.endswith("== -1") and not tv)}
                            if any({"end", "trailer"} & kinds.get(x, set()) for x in ok_names):
                                later_true = True
                    if not ("next" in failed_kinds and later_true):
                        ok = False
            else:
                ok = False
        if ok and positive:
            out.add(nm)
    return out
