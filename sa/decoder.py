"""Shared view of ``Codec.decode`` / ``socket_read_task`` for C01, C03 and C10."""
from __future__ import annotations

import ast

from .cfg import CFG
from .core import AnalysisError, unparse, walk_no_nested
from .guards import derivation, reaching_defs

DEC = "Codec.decode"
READER = "AsyncFIXConnection.socket_read_task"


class DecoderView:
    def __init__(self, repo):
        self.repo = repo
        self.fn = repo.func(DEC)
        self.cfg = CFG(self.fn)
        args = [a.arg for a in self.fn.args.args]
        if len(args) < 2:
            raise AnalysisError("Codec.decode lost its buffer parameter")
        self.buf = args[1]
        self.silent = args[2] if len(args) > 2 else None
        self.soh = self._fold_soh()
        self.rd = reaching_defs(self.cfg)
        self.returns = []
        for n in self.cfg.nodes:
            if n.kind == "stmt" and isinstance(n.ast, ast.Return):
                v = n.ast.value
                if not (isinstance(v, ast.Tuple) and len(v.elts) == 3):
                    raise AnalysisError(f"decode return at line {n.line} is not a 3-tuple")
                self.returns.append(n)
        if not self.returns:
            raise AnalysisError("decode has no return statement")

    # the separator attribute folded from Codec.__init__
    def _fold_soh(self):
        init = self.repo.func("Codec.__init__")
        for n in walk_no_nested(init):
            if isinstance(n, ast.Assign) and len(n.targets) == 1 and unparse(n.targets[0]) == "self.SOH" \
                    and isinstance(n.value, ast.Constant) and isinstance(n.value.value, str):
                return n.value.value
        raise AnalysisError("Codec.__init__ no longer assigns the constant self.SOH")

    def fold_str(self, node):
        """Fold a str/bytes expression made of constants, self.SOH and + ; None if it does not fold."""
        if isinstance(node, ast.Constant) and isinstance(node.value, (str, bytes)):
            return node.value
        if unparse(node) == "self.SOH":
            return self.soh
        if isinstance(node, ast.Name):
            # a local bound once to a foldable value (e.g. SEP = self.SOH)
            vals = derivation(self.fn, node.id, 0).get(node.id, [])
            if len(vals) == 1:
                return self.fold_str(vals[0])
            return None
        if isinstance(node, ast.BinOp) and isinstance(node.op, ast.Add):
            a, b = self.fold_str(node.left), self.fold_str(node.right)
            if a is not None and b is not None and type(a) is type(b):
                return a + b
        if isinstance(node, ast.Subscript) and isinstance(node.slice, ast.Slice):
            base = self.fold_str(node.value)
            if base is not None and node.slice.lower is None and node.slice.step is None:
                return None  # prefix of a literal with a dynamic bound: not a fixed string
        return None

    def is_message_return(self, rnode):
        e0 = rnode.ast.value.elts[0]
        return not (isinstance(e0, ast.Constant) and e0.value is None)

    def searches(self):
        """Every ``X.find(...)`` / ``X.index(...)`` / ``X.rfind`` call: (call, receiver text, folded literal)."""
        out = []
        for n in walk_no_nested(self.fn):
            if isinstance(n, ast.Call) and isinstance(n.func, ast.Attribute) and n.func.attr in ("find", "index", "rfind", "rindex") and n.args:
                out.append((n, unparse(n.func.value), self.fold_str(n.args[0])))
        return out

    def length_class(self, rnode):
        """Symbolic class of the consumed length on a return path (second tuple element):
        ALL | ALL-BUT-TAIL | KEEP | FRAME | OTHER:<text>."""
        e = rnode.ast.value.elts[1]
        t = unparse(e)
        if t == f"len({self.buf})":
            return "ALL"
        if isinstance(e, ast.BinOp) and isinstance(e.op, ast.Sub) and unparse(e.left) == f"len({self.buf})":
            return "ALL-BUT-TAIL"
        # only sums keep 0 <= consumed <= len(buffer) visible
        exprs = [e]
        for x in ast.walk(e):
            if isinstance(x, ast.Name):
                for d in self.rd[rnode.id].get(x.id, set()):
                    v = getattr(self.cfg.nodes[d].ast, "value", None)
                    if v is not None:
                        exprs.append(v)
                    a = self.cfg.nodes[d].ast
                    if isinstance(a, ast.AugAssign) and not isinstance(a.op, ast.Add):
                        return "OTHER:" + t
        for ex in exprs:
            for x in ast.walk(ex):
                if isinstance(x, ast.BinOp) and not isinstance(x.op, ast.Add):
                    return "OTHER:" + t
                if isinstance(x, ast.UnaryOp) and isinstance(x.op, ast.USub):
                    return "OTHER:" + t
        src = self.sources(e, rnode.id)
        if src and src <= {"START"}:
            return "KEEP"
        if "START" in src and src & {"BODYLEN", "TEXTSEARCH", "TEXTLEN"} and "BUFLEN" not in src:
            return "FRAME"
        return "OTHER:" + t

    def _kinds(self, e, out):
        for x in ast.walk(e):
            if isinstance(x, ast.Call):
                if isinstance(x.func, ast.Attribute) and x.func.attr in ("find", "index", "rfind", "rindex"):
                    out.add("START" if unparse(x.func.value) == self.buf else "TEXTSEARCH")
                elif isinstance(x.func, ast.Name) and x.func.id == "len" and x.args:
                    out.add("BUFLEN" if unparse(x.args[0]) == self.buf else "TEXTLEN")
                elif isinstance(x.func, ast.Name) and x.func.id == "int":
                    out.add("BODYLEN")

    def sources(self, e, at):
        """Source kinds the value of ``e`` (evaluated at CFG node ``at``) may depend on: names are
        resolved through the definitions reaching ``at`` and from there flow-insensitively."""
        out = set()
        self._kinds(e, out)
        for x in ast.walk(e):
            if not isinstance(x, ast.Name) or x.id in (self.buf, "self", "len", "int"):
                continue
            for d in self.rd[at].get(x.id, set()):
                a = self.cfg.nodes[d].ast
                val = getattr(a, "value", None)
                if val is None:
                    continue
                self._kinds(val, out)
                for y in ast.walk(val):
                    if isinstance(y, ast.Name) and y.id != x.id:
                        for vals in derivation(self.fn, y.id).values():
                            for v in vals:
                                self._kinds(v, out)
        return out


class ReaderView:
    def __init__(self, repo):
        self.repo = repo
        self.fn = repo.func(READER)
        self.cfg = CFG(self.fn)
        self.decode_calls = [c for c in walk_no_nested(self.fn) if isinstance(c, ast.Call)
                             and isinstance(c.func, ast.Attribute) and c.func.attr == "decode"
                             and "codec" in unparse(c.func.value).lower()]
        if len(self.decode_calls) != 1:
            raise AnalysisError(f"socket_read_task: expected one codec.decode call, found {len(self.decode_calls)}")
        self.decode_call = self.decode_calls[0]
        self.decode_nodes = self.cfg.ids_of(self.decode_call)
