"""E4 helpers: guard facts, cut-reachability ("every path from a killer to a use passes an
establisher"), local short-circuit facts, flow-insensitive derivation sets.

All functions work on one function's CFG (sa.cfg.CFG); nothing is executed.
"""
from __future__ import annotations

import ast

from .core import unparse, walk_no_nested


# ------------------------------------------------------------------------------ facts
def facts(test, truth=True):
    """Atoms known when ``test`` evaluates to ``truth``: set of (atom text, bool)."""
    out = set()
    if isinstance(test, ast.BoolOp):
        if isinstance(test.op, ast.And) and truth:
            for v in test.values:
                out |= facts(v, True)
        elif isinstance(test.op, ast.Or) and not truth:
            for v in test.values:
                out |= facts(v, False)
        return out
    if isinstance(test, ast.UnaryOp) and isinstance(test.op, ast.Not):
        return facts(test.operand, not truth)
    if isinstance(test, ast.Compare) and len(test.ops) == 1:
        op = test.ops[0]
        l, r = unparse(test.left), unparse(test.comparators[0])
        neg = {ast.Eq: ast.NotEq, ast.NotEq: ast.Eq, ast.In: ast.NotIn, ast.NotIn: ast.In,
               ast.Is: ast.IsNot, ast.IsNot: ast.Is, ast.Lt: ast.GtE, ast.GtE: ast.Lt,
               ast.Gt: ast.LtE, ast.LtE: ast.Gt}
        sym = {ast.Eq: "==", ast.NotEq: "!=", ast.In: "in", ast.NotIn: "not in", ast.Is: "is",
               ast.IsNot: "is not", ast.Lt: "<", ast.GtE: ">=", ast.Gt: ">", ast.LtE: "<="}
        t = type(op)
        if t in sym:
            eff = t if truth else neg[t]
            out.add((f"{l} {sym[eff]} {r}", True))
            # canonical positive form as well, e.g. ('x in D', False)
            out.add((f"{l} {sym[t]} {r}", truth))
        return out
    out.add((unparse(test), truth))
    return out


def edge_facts(cfg, nid, label):
    n = cfg.nodes[nid]
    if n.kind != "test":
        return set()
    if label == "true":
        return facts(n.ast, True)
    if label == "false":
        return facts(n.ast, False)
    return set()


def local_facts(root, target):
    """Facts established by short-circuit evaluation inside ``root`` before ``target`` runs."""
    out = set()

    def visit(node, acc):
        if node is target:
            out.update(acc)
            return True
        if isinstance(node, ast.BoolOp):
            cur = set(acc)
            for v in node.values:
                if visit(v, cur):
                    return True
                cur |= facts(v, isinstance(node.op, ast.And))
            return False
        if isinstance(node, ast.IfExp):
            if visit(node.test, acc):
                return True
            if visit(node.body, acc | facts(node.test, True)):
                return True
            return visit(node.orelse, acc | facts(node.test, False))
        for ch in ast.iter_child_nodes(node):
            if visit(ch, acc):
                return True
        return False

    visit(root, set())
    return out


# ------------------------------------------------------------------------- cut reach
def node_exprs(node):
    """The expression roots a CFG node evaluates itself (header only for compound nodes)."""
    a = node.ast
    if a is None:
        return []
    if node.kind == "for":
        return [a.iter]
    if node.kind == "with":
        return [it.context_expr for it in a.items]
    if node.kind == "handler":
        return []
    return [a]


def stores(node):
    """Names (and dotted chains) this CFG node assigns."""
    out = set()
    a = node.ast
    if a is None:
        return out
    tgts = []
    if node.kind == "for":
        tgts = [a.target]
    elif node.kind == "with":
        tgts = [it.optional_vars for it in a.items if it.optional_vars is not None]
    elif node.kind == "handler":
        if a.name:
            out.add(a.name)
    elif isinstance(a, ast.Assign):
        tgts = a.targets
    elif isinstance(a, (ast.AugAssign, ast.AnnAssign)):
        tgts = [a.target]
    elif isinstance(a, ast.Delete):
        tgts = []
    for t in tgts:
        for x in ast.walk(t):
            if isinstance(x, ast.Name) and isinstance(x.ctx, ast.Store):
                out.add(x.id)
            elif isinstance(x, ast.Attribute) and isinstance(x.ctx, ast.Store):
                out.add(unparse(x))
    for x in walk_no_nested(a) if node.kind in ("stmt", "test") else []:
        if isinstance(x, ast.NamedExpr) and isinstance(x.target, ast.Name):
            out.add(x.target.id)
    return out


def unprotected_path(cfg, use, killers, est_edges=(), est_nodes=(), exc=True):
    """Is there a path killer -> ... -> use that passes no establisher?

    killers: node ids *after* which the fact is unknown (the entry node is always one);
    est_edges: set of (node id, label) whose traversal establishes the fact;
    est_nodes: node ids whose execution establishes it (the fact holds on their out-edges).
    Returns a witness path (list of node ids) or None.
    """
    est_edges = set(est_edges)
    est_nodes = set(est_nodes)
    srcs = set(killers) | {cfg.entry}
    srcs -= est_nodes
    prev = {}
    todo = []
    for s in srcs:
        prev[s] = None
        todo.append(s)
    while todo:
        nxt = []
        for n in todo:
            for d, lab in cfg.succs(n, exc):
                if (n, lab.replace("exc:", "")) in est_edges:
                    continue
                if d == use:
                    path = [d, n]
                    while prev[path[-1]] is not None:
                        path.append(prev[path[-1]])
                    return list(reversed(path))
                if d in prev or d in est_nodes:
                    continue
                prev[d] = n
                nxt.append(d)
        todo = nxt
    return None


def fact_edges(cfg, wanted):
    """All (node, label) edges of test nodes whose facts include one of ``wanted``.

    wanted: iterable of (atom text, bool)."""
    wanted = set(wanted)
    out = set()
    for n in cfg.nodes:
        if n.kind != "test":
            continue
        for lab in ("true", "false"):
            if edge_facts(cfg, n.id, lab) & wanted:
                out.add((n.id, lab))
    return out


def def_nodes(cfg, name):
    return [n.id for n in cfg.nodes if name in stores(n)]


def guarded(cfg, use_nid, use_root, use_target, wanted, names, extra_killers=(), est_nodes=()):
    """Does a fact of ``wanted`` hold whenever ``use_target`` (inside statement ``use_root`` of
    CFG node ``use_nid``) is evaluated?  The fact is killed by any redefinition of ``names``.
    Returns (True, None) or (False, witness path)."""
    if local_facts(use_root, use_target) & set(wanted):
        return True, None
    killers = set(extra_killers)
    for nm in names:
        killers |= set(def_nodes(cfg, nm))
    w = unprotected_path(cfg, use_nid, killers, fact_edges(cfg, wanted), est_nodes)
    return (w is None), w


# ------------------------------------------------------------------------ derivation
def derivation(fn, name, depth=6):
    """Flow-insensitive: all expressions assigned to ``name`` in fn, and transitively to the
    names they mention.  Returns {name: [value exprs]} for the closure."""
    out = {}
    todo = [(name, 0)]
    while todo:
        nm, d = todo.pop()
        if nm in out or d > depth:
            continue
        vals = []
        for n in walk_no_nested(fn):
            if isinstance(n, ast.Assign):
                for t in n.targets:
                    if isinstance(t, ast.Name) and t.id == nm:
                        vals.append(n.value)
                    elif isinstance(t, ast.Tuple):
                        for i, e in enumerate(t.elts):
                            if isinstance(e, ast.Name) and e.id == nm:
                                vals.append(ast.Subscript(value=n.value, slice=ast.Constant(i), ctx=ast.Load()))
            elif isinstance(n, ast.AugAssign) and isinstance(n.target, ast.Name) and n.target.id == nm:
                vals.append(n.value)
            elif isinstance(n, (ast.For, ast.AsyncFor)) and isinstance(n.target, ast.Name) and n.target.id == nm:
                vals.append(ast.Subscript(value=n.iter, slice=ast.Name("_i", ast.Load()), ctx=ast.Load()))
        out[nm] = vals
        for v in vals:
            for x in ast.walk(v):
                if isinstance(x, ast.Name) and x.id != nm:
                    todo.append((x.id, d + 1))
    return out


# ----------------------------------------------------------------- reaching definitions
def reaching_defs(cfg, exc=True):
    """in_[node][name] = frozenset of def node ids whose assignment may reach node's entry."""
    gen = {n.id: stores(n) for n in cfg.nodes}
    in_ = {n.id: {} for n in cfg.nodes}
    out = {n.id: {} for n in cfg.nodes}
    work = [n.id for n in cfg.nodes]
    while work:
        nid = work.pop()
        merged: dict = {}
        for p, lab in cfg.preds(nid, exc):
            for nm, ds in out[p].items():
                merged.setdefault(nm, set()).update(ds)
        in_[nid] = merged
        new = {nm: set(ds) for nm, ds in merged.items()}
        for nm in gen[nid]:
            a = cfg.nodes[nid].ast
            if isinstance(a, ast.AugAssign):
                new.setdefault(nm, set()).add(nid)  # keeps earlier defs: value accumulates
                new[nm] = set(new[nm])
            else:
                new[nm] = {nid}
        if new != out[nid]:
            out[nid] = new
            for d, lab in cfg.succs(nid, exc):
                work.append(d)
    return in_


def single_defs(fn):
    """local name -> value expression, for locals of `fn` that are plain-assigned exactly once (no augmented
    assignment, no loop / with / handler target, not a parameter)."""
    import ast as _ast
    from .core import walk_no_nested as _walk
    params = {a.arg for a in fn.args.args + fn.args.kwonlyargs + fn.args.posonlyargs}
    count, val = {}, {}
    for n in _walk(fn):
        if isinstance(n, _ast.Name) and isinstance(n.ctx, (_ast.Store, _ast.Del)):
            count[n.id] = count.get(n.id, 0) + 1
        if isinstance(n, _ast.Assign) and len(n.targets) == 1 and isinstance(n.targets[0], _ast.Name):
            val[n.targets[0].id] = n.value
        elif isinstance(n, _ast.AnnAssign) and isinstance(n.target, _ast.Name) and n.value is not None:
            val[n.target.id] = n.value
    return {k: v for k, v in val.items() if count.get(k) == 1 and k not in params}


def resolved(fn, expr, depth=4):
    """A copy of `expr` in which locals of `fn` that are assigned exactly once are replaced by their value
    expression (recursively, bounded): `x = f(a); return x is not None` reads as `return f(a) is not None`.
    Only for *matching the shape of a value*; evaluation order is not modelled."""
    import ast as _ast
    defs = single_defs(fn)

    class R(_ast.NodeTransformer):
        def __init__(self, d):
            self.d = d

        def visit_Name(self, node):
            if isinstance(node.ctx, _ast.Load) and node.id in defs and self.d > 0:
                return _ast.copy_location(R(self.d - 1).visit(_detach(defs[node.id])), node)
            return node

    return R(depth).visit(_detach(expr))


def _detach(node):
    """Structural copy of an AST node without the loader's back-references (safe to deepcopy / transform)."""
    import ast as _ast
    if isinstance(node, list):
        return [_detach(x) for x in node]
    if not isinstance(node, _ast.AST):
        return node
    new = type(node)()
    for f in node._fields:
        if hasattr(node, f):
            setattr(new, f, _detach(getattr(node, f)))
    for a in ("lineno", "col_offset", "end_lineno", "end_col_offset"):
        if hasattr(node, a):
            setattr(new, a, getattr(node, a))
    if hasattr(node, "_module"):
        new._module = node._module
    return new


def symbolic_block(stmts, env=None):
    """Sequential symbolic evaluation of a straight-line block: name -> expression over the block's inputs.
    Handles `x = e`, `x: T = e`, and `if c: x = e1 [else: x = e2]` (-> conditional expression); expression
    statements are skipped; stops at the first statement of any other kind.  Returns (env, rest)."""
    import ast as _ast
    env = dict(env or {})

    def sub(e):
        class S(_ast.NodeTransformer):
            def visit_Name(self, node):
                if isinstance(node.ctx, _ast.Load) and node.id in env:
                    return _detach(env[node.id])
                return node
        return S().visit(_detach(e))

    def only_assigns(body):
        return all((isinstance(s, _ast.Assign) and len(s.targets) == 1 and isinstance(s.targets[0], _ast.Name)) or isinstance(s, _ast.Pass) for s in body)

    i = 0
    for i, st in enumerate(stmts):
        if isinstance(st, _ast.Assign) and len(st.targets) == 1 and isinstance(st.targets[0], _ast.Name):
            env[st.targets[0].id] = sub(st.value)
        elif isinstance(st, _ast.AnnAssign) and isinstance(st.target, _ast.Name) and st.value is not None:
            env[st.target.id] = sub(st.value)
        elif isinstance(st, _ast.Expr):
            continue
        elif isinstance(st, _ast.If) and only_assigns(st.body) and only_assigns(st.orelse):
            test = sub(st.test)
            e1, _ = symbolic_block(st.body, env)
            e2, _ = symbolic_block(st.orelse, env)
            for k in set(e1) | set(e2):
                a, b = e1.get(k), e2.get(k)
                if a is None or b is None:
                    continue
                if _ast.dump(a) != _ast.dump(b):
                    env[k] = _ast.IfExp(_detach(test), a, b)
        else:
            return env, stmts[i:]
    return env, []


def expand_atom(fn, atom: str, _cache={}) -> str:
    """Guard-fact text with single-definition locals that merely name an attribute / item (`t = m.msg_type`) replaced
    by that expression, so that a fact reads the same whether or not the value was first put into a local."""
    import ast as _ast
    import re as _re
    from .core import unparse as _unparse
    key = id(fn)
    if key not in _cache:
        m = {}
        for k, v in single_defs(fn).items():
            e = v
            while isinstance(e, (_ast.Attribute, _ast.Subscript)):
                e = e.value
            if isinstance(v, (_ast.Attribute, _ast.Subscript)) and isinstance(e, _ast.Name):
                m[k] = _unparse(v)
        _cache[key] = m
    m = _cache[key]
    if not m:
        return atom
    return _re.sub(r"(?<![\w.])(" + "|".join(map(_re.escape, sorted(m, key=len, reverse=True))) + r")(?![\w(])", lambda mo: m[mo.group(1)], atom)


def assert_facts(cfg, nid, _cache={}):
    """Facts established by `assert` statements that dominate the node (on non-exceptional paths): the asserted
    condition holds wherever execution continued past it (asserts enabled - the library's own tests run that way;
    recorded as an assumption by the rules that use it)."""
    import ast as _ast
    key = id(cfg)
    if key not in _cache:
        _cache[key] = cfg.dominators(exc=False)
    dom = _cache[key]
    out = set()
    for d in dom.get(nid, ()):
        n = cfg.nodes[d]
        if d != nid and n.kind == "stmt" and isinstance(n.ast, _ast.Assert):
            out |= facts(n.ast.test, True)
    return out
