"""Shared anchors of the outbound-counter rewind in ``_process_resend`` (C06, C09, C14)."""
from __future__ import annotations

import ast

from .cfg import CFG
from .core import AnalysisError, unparse, walk_no_nested

RESEND = "AsyncFIXConnection._process_resend"


class Rewind:
    def __init__(self, repo):
        self.fn = repo.func(RESEND)
        self.cfg = CFG(self.fn)
        g = self.cfg
        self.saved = None
        self.save_nodes = []
        for n in g.nodes:
            if n.kind == "stmt" and isinstance(n.ast, ast.Assign) and len(n.ast.targets) == 1 and isinstance(n.ast.targets[0], ast.Name) \
                    and unparse(n.ast.value).endswith(".next_num_out"):
                self.saved = n.ast.targets[0].id
                self.save_nodes.append(n.id)
        if self.saved is None:
            raise AnalysisError("_process_resend: the local that saves next_num_out was not found")
        self.rewinds, self.restores = [], []
        for n in g.nodes:
            if n.kind != "stmt":
                continue
            val = None
            for c in walk_no_nested(n.ast):
                if isinstance(c, ast.Call) and isinstance(c.func, ast.Attribute) and c.func.attr == "set_seq_num":
                    for kw in c.keywords:
                        if kw.arg == "next_num_out":
                            val = kw.value
                    if val is None and len(c.args) > 2:
                        val = c.args[2]
            if isinstance(n.ast, ast.Assign) and any(isinstance(t, ast.Attribute) and t.attr == "next_num_out" for t in n.ast.targets):
                val = n.ast.value
            if val is None:
                continue
            if isinstance(val, ast.Name) and val.id == self.saved:
                self.restores.append(n.id)
            else:
                self.rewinds.append(n.id)
        # no restoring write of exactly the saved value: the rules report it (C06.bracket), not the loader
