"""E1/E3: call resolution inside the package, suspension-point and effect summaries."""
from __future__ import annotations

import ast

from .core import AnalysisError, Repo, attr_chain, enclosing_func, parent, qualname, unparse, walk_no_nested

HOOKS = {"on_message", "on_connect", "on_disconnect", "on_logon", "on_logout", "on_state_change", "should_replay"}
CONN = "AsyncFIXConnection"


class Resolver:
    def __init__(self, repo: Repo):
        self.repo = repo
        self.attr_types: dict[tuple, str] = {}  # (class, attr) -> class name
        self._infer_attr_types()
        self._susp_cache: dict[str, bool] = {}
        self._callees_cache: dict[str, list] = {}

    # ------------------------------------------------------------ attribute types
    def _infer_attr_types(self):
        for cname in self.repo.classes:
            init = self.repo.functions.get(f"{cname}.__init__")
            if init is None:
                continue
            ann = {a.arg: self._ann_class(a.annotation) for a in init.args.args if a.annotation is not None}
            for n in walk_no_nested(init):
                tgt = val = None
                a_cls = None
                if isinstance(n, ast.AnnAssign) and isinstance(n.target, ast.Attribute):
                    tgt, val = n.target, n.value
                    a_cls = self._ann_class(n.annotation)
                elif isinstance(n, ast.Assign) and len(n.targets) == 1 and isinstance(n.targets[0], ast.Attribute):
                    tgt, val = n.targets[0], n.value
                if tgt is None or not (isinstance(tgt.value, ast.Name) and tgt.value.id == "self"):
                    continue
                t = a_cls
                if t is None and isinstance(val, ast.Call):
                    f = val.func
                    if isinstance(f, ast.Name) and f.id in self.repo.classes:
                        t = f.id
                if t is None and isinstance(val, ast.Name) and ann.get(val.id):
                    t = ann[val.id]
                if t:
                    self.attr_types[(cname, tgt.attr)] = t

    def _ann_class(self, ann):
        if ann is None:
            return None
        for n in ast.walk(ann):
            if isinstance(n, ast.Name) and n.id in self.repo.classes:
                return n.id
            if isinstance(n, ast.Attribute) and n.attr in self.repo.classes:
                return n.attr
            if isinstance(n, ast.Constant) and isinstance(n.value, str) and n.value in self.repo.classes:
                return n.value
        return None

    def attr_type(self, cls, attr):
        seen = set()
        while cls and cls not in seen:
            seen.add(cls)
            if (cls, attr) in self.attr_types:
                return self.attr_types[(cls, attr)]
            nxt = None
            for b in self.repo.classes[cls].bases if cls in self.repo.classes else []:
                bn = b.id if isinstance(b, ast.Name) else None
                if bn in self.repo.classes:
                    nxt = bn
            cls = nxt
        return None

    # ------------------------------------------------------------------ resolution
    def resolve(self, call: ast.Call, in_fn=None):
        """-> ('func', qualname) | ('hook', name) | ('class', name) | ('ext', text)"""
        fn = in_fn or enclosing_func(call)
        cls = None
        if fn is not None and isinstance(parent(fn), ast.ClassDef):
            cls = parent(fn).name
        f = call.func
        if isinstance(f, ast.Name):
            if f.id in self.repo.classes:
                return ("class", f.id)
            if f.id in self.repo.functions:
                return ("func", f.id)
            return ("ext", f.id)
        if isinstance(f, ast.Attribute):
            recv = f.value
            # super().m()
            if isinstance(recv, ast.Call) and isinstance(recv.func, ast.Name) and recv.func.id == "super" and cls:
                for b in self.repo.classes[cls].bases:
                    bn = b.id if isinstance(b, ast.Name) else None
                    if bn in self.repo.classes:
                        tgt = self.repo.mro_func(bn, f.attr)
                        if tgt is not None:
                            return ("func", qualname(tgt))
                return ("ext", unparse(f))
            if isinstance(recv, ast.Name) and recv.id == "self" and cls:
                if f.attr in HOOKS and self._is_conn(cls):
                    return ("hook", f.attr)
                tgt = self.repo.mro_func(cls, f.attr)
                if tgt is not None:
                    return ("func", qualname(tgt))
                return ("ext", unparse(f))
            if isinstance(recv, ast.Name) and recv.id in self.repo.classes:
                tgt = self.repo.mro_func(recv.id, f.attr)
                if tgt is not None:
                    return ("func", qualname(tgt))
            # self._attr.m()
            if isinstance(recv, ast.Attribute) and isinstance(recv.value, ast.Name) and recv.value.id == "self" and cls:
                t = self.attr_type(cls, recv.attr)
                if t:
                    tgt = self.repo.mro_func(t, f.attr)
                    if tgt is not None:
                        return ("func", qualname(tgt))
            # param.m() with annotated parameter
            if isinstance(recv, ast.Name) and fn is not None:
                for a in fn.args.args + fn.args.kwonlyargs:
                    if a.arg == recv.id and a.annotation is not None:
                        t = self._ann_class(a.annotation)
                        if t:
                            tgt = self.repo.mro_func(t, f.attr)
                            if tgt is not None:
                                return ("func", qualname(tgt))
            return ("ext", unparse(f))
        return ("ext", unparse(f))

    def _is_conn(self, cls):
        seen = set()
        while cls and cls not in seen:
            seen.add(cls)
            if cls == CONN:
                return True
            nxt = None
            for b in self.repo.classes[cls].bases if cls in self.repo.classes else []:
                bn = b.id if isinstance(b, ast.Name) else None
                if bn in self.repo.classes:
                    nxt = bn
            cls = nxt
        return False

    # ------------------------------------------------------------------ suspension
    def await_suspends(self, aw: ast.Await, in_fn=None) -> bool:
        v = aw.value
        if not isinstance(v, ast.Call):
            return True
        kind, name = self.resolve(v, in_fn)
        if kind == "hook":
            return True
        if kind == "func":
            return self.suspends(name)
        return True  # external awaitable (drain, sleep, read, wait_closed ...)

    def suspends(self, qual: str) -> bool:
        if qual in self._susp_cache:
            return self._susp_cache[qual]
        self._susp_cache[qual] = False  # break recursion optimistically, then fix below
        fn = self.repo.functions.get(qual)
        res = False
        if fn is not None:
            for n in walk_no_nested(fn):
                if isinstance(n, ast.Await) and self.await_suspends(n, fn):
                    res = True
                    break
                if isinstance(n, (ast.AsyncFor, ast.AsyncWith)):
                    res = True
                    break
        self._susp_cache[qual] = res
        return res

    def node_suspends(self, astnode, in_fn=None) -> bool:
        """Does executing this statement/expression contain a real suspension point?"""
        for n in walk_no_nested(astnode):
            if isinstance(n, ast.Await) and self.await_suspends(n, in_fn):
                return True
        return isinstance(astnode, (ast.AsyncFor, ast.AsyncWith))

    # --------------------------------------------------------------------- effects
    def callees(self, qual: str):
        if qual in self._callees_cache:
            return self._callees_cache[qual]
        fn = self.repo.functions.get(qual)
        out = []
        if fn is not None:
            for n in walk_no_nested(fn):
                if isinstance(n, ast.Call):
                    out.append((n, self.resolve(n, fn)))
        self._callees_cache[qual] = out
        return out

    def transitive(self, qual: str, depth=8):
        """All repo functions reachable from qual (incl. itself), with hooks as ('hook', name)."""
        seen = {qual}
        hooks = set()
        todo = [(qual, 0)]
        while todo:
            q, d = todo.pop()
            if d >= depth:
                continue
            for call, (kind, name) in self.callees(q):
                if kind == "hook":
                    hooks.add(name)
                elif kind == "func" and name not in seen:
                    seen.add(name)
                    todo.append((name, d + 1))
                elif kind == "class":
                    init = f"{name}.__init__"
                    if init in self.repo.functions and init not in seen:
                        seen.add(init)
                        todo.append((init, d + 1))
        return seen, hooks

    def attr_writes(self, qual: str, attr: str):
        """AST nodes in qual that store to ``<something>.attr`` (Assign / AugAssign / AnnAssign)."""
        fn = self.repo.functions.get(qual)
        out = []
        if fn is None:
            return out
        for n in walk_no_nested(fn):
            tgts = []
            if isinstance(n, ast.Assign):
                tgts = n.targets
            elif isinstance(n, (ast.AugAssign, ast.AnnAssign)):
                tgts = [n.target]
            for t in tgts:
                for x in ast.walk(t):
                    if isinstance(x, ast.Attribute) and x.attr == attr and isinstance(x.ctx, ast.Store):
                        out.append(n)
        return out

    def writers_of(self, attr: str):
        """qualname -> [store nodes] across the package."""
        # a store to an attribute whose name is computed (`setattr(obj, name, v)`) may be a store to this one
        for q, fn in self.repo.functions.items():
            for c in walk_no_nested(fn):
                if isinstance(c, ast.Call) and isinstance(c.func, ast.Name) and c.func.id == "setattr" and len(c.args) == 3 \
                        and not (isinstance(c.args[1], ast.Constant) and isinstance(c.args[1].value, str)):
                    raise AnalysisError(f"{q} stores to an attribute chosen at run time (`{unparse(c)[:60]}`): who writes `{attr}` is not visible")
        out = {}
        for q in self.repo.functions:
            w = self.attr_writes(q, attr)
            if w:
                out[q] = w
        return out

    def _family(self, cls: str) -> set:
        """the class, its package-defined bases and subclasses"""
        bases = {n: [b.id if isinstance(b, ast.Name) else getattr(b, "attr", None) for b in c.bases] for n, c in self.repo.classes.items()}
        fam = {cls}
        changed = True
        while changed:
            changed = False
            for c, bs in bases.items():
                if c in fam:
                    for b in bs:
                        if b in bases and b not in fam:
                            fam.add(b)
                            changed = True
                elif any(b in fam for b in bs):
                    fam.add(c)
                    changed = True
        return fam

    def call_sites(self, target_qual: str):
        """All call sites in the package resolving to target_qual: [(caller qual, call)]."""
        # a call through a name computed at run time (`getattr(obj, name)(...)`) may be a call of this function
        short_ = target_qual.split(".")[-1]
        for q, fn in self.repo.functions.items():
            for c in walk_no_nested(fn):
                if isinstance(c, ast.Call) and isinstance(c.func, ast.Call) and isinstance(c.func.func, ast.Name) and c.func.func.id == "getattr" and len(c.func.args) >= 2 \
                        and not (isinstance(c.func.args[1], ast.Constant) and isinstance(c.func.args[1].value, str)):
                    obj = c.func.args[0]
                    owner = None
                    if isinstance(obj, ast.Name) and obj.id in self.repo.classes:
                        owner = obj.id
                    elif isinstance(obj, ast.Name) and obj.id in ("self", "cls") and "." in q:
                        owner = q.split(".")[0]
                    tcls = target_qual.split(".")[0] if "." in target_qual else None
                    if owner is not None and tcls is not None and owner != tcls and tcls not in self._family(owner):
                        continue  # a method of another class is picked there
                    raise AnalysisError(f"{q} calls a method chosen at run time (`{unparse(c.func)[:60]}`): the callers of {short_} are not visible")
        out = []
        for q in self.repo.functions:
            for call, (kind, name) in self.callees(q):
                if kind == "func" and name == target_qual:
                    out.append((q, call))
        return out
