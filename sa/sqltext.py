"""E7: analysis of the SQL text found in the journaler's source.

A small tokenizer / recursive-descent parser for the CREATE TABLE / INSERT / UPDATE /
DELETE / SELECT / PRAGMA subset.  Text it cannot parse is an AnalysisError.
"""
from __future__ import annotations

import ast
import re

from .core import AnalysisError, unparse, walk_no_nested

TOKEN = re.compile(r"\s*(?:(?P<id>[A-Za-z_][A-Za-z_0-9]*)|(?P<num>\d+)|(?P<str>'[^']*')|(?P<op>>=|<=|<>|!=|==|[(),=<>?*.;+-]))")


def tokenize(sql: str):
    pos = 0
    out = []
    sql = sql.strip()
    while pos < len(sql):
        m = TOKEN.match(sql, pos)
        if not m or m.end() == pos:
            raise AnalysisError(f"SQL tokenizer stuck at {sql[pos:pos + 20]!r}")
        pos = m.end()
        if m.group("id"):
            out.append(("id", m.group("id")))
        elif m.group("num"):
            out.append(("num", m.group("num")))
        elif m.group("str"):
            out.append(("str", m.group("str")))
        else:
            out.append(("op", m.group("op")))
    return out


class Stmt:
    def __init__(self, kind):
        self.kind = kind  # CREATE / INSERT / UPDATE / DELETE / SELECT / PRAGMA
        self.table = None
        self.columns = []  # INSERT column list / SELECT list / CREATE column names
        self.set_cols = []  # UPDATE: [(col, rhs-token)]
        self.where = []  # [(col, op, rhs)] conjuncts
        self.where_connectives = []  # AND / OR between conjuncts
        self.order_by = []  # [(col, 'ASC'|'DESC')]
        self.placeholders = []  # ordered roles of each '?'
        self.values = []  # INSERT values tokens
        self.primary_key = None
        self.unique = []
        self.defaults = {}
        self.coldefs = {}
        self.or_clause = None  # INSERT OR REPLACE/IGNORE
        self.pragma = None
        self.limit = None
        self.text = ""

    @property
    def is_dml(self):
        return self.kind in ("INSERT", "UPDATE", "DELETE", "REPLACE")

    def __repr__(self):
        return f"<{self.kind} {self.table} {self.text[:50]!r}>"


class _P:
    def __init__(self, toks, text):
        self.t = toks
        self.i = 0
        self.text = text

    def peek(self, k=0):
        return self.t[self.i + k] if self.i + k < len(self.t) else ("eof", "")

    def kw(self, k=0):
        t = self.peek(k)
        return t[1].upper() if t[0] == "id" else t[1]

    def take(self):
        t = self.peek()
        self.i += 1
        return t

    def expect(self, *words):
        for w in words:
            if self.kw() != w:
                raise AnalysisError(f"SQL parse: expected {w} at token {self.i} in {self.text!r}")
            self.take()

    def ident(self):
        t = self.take()
        if t[0] != "id":
            raise AnalysisError(f"SQL parse: identifier expected in {self.text!r}")
        return t[1]

    def done(self):
        while self.kw() == ";":
            self.take()
        if self.peek()[0] != "eof":
            raise AnalysisError(f"SQL parse: trailing tokens {self.t[self.i:]} in {self.text!r}")


def _where(p, st):
    while True:
        neg = False
        if p.kw() == "NOT":
            p.take()
            neg = True
        col = p.ident()
        if p.kw() == "IN":
            p.take()
            p.expect("(")
            n = 0
            while p.kw() != ")":
                t = p.take()
                if t[1] == "?":
                    st.placeholders.append(("where", col, "in"))
                    n += 1
            p.expect(")")
            st.where.append((col, "not in" if neg else "in", "?" * n))
        elif p.kw() == "BETWEEN":
            p.take()
            lo = p.take()
            if lo[1] == "?":
                st.placeholders.append(("where", col, ">="))
            p.expect("AND")
            hi = p.take()
            if hi[1] == "?":
                st.placeholders.append(("where", col, "<="))
            st.where.append((col, ">=", lo[1]))
            st.where_connectives.append("AND")
            st.where.append((col, "<=", hi[1]))
        else:
            op = p.take()
            if op[0] != "op" or op[1] not in ("=", "==", ">=", "<=", "<", ">", "<>", "!="):
                raise AnalysisError(f"SQL parse: comparison expected in WHERE of {p.text!r}")
            rhs = p.take()
            o = "=" if op[1] == "==" else op[1]
            if rhs[1] == "?":
                st.placeholders.append(("where", col, o))
                st.where.append((col, o, "?"))
            else:
                extra = ""
                while p.kw() in ("+", "-"):
                    extra += p.take()[1] + p.take()[1]
                st.where.append((col, o, rhs[1] + extra))
        if p.kw() in ("AND", "OR"):
            st.where_connectives.append(p.kw())
            p.take()
            continue
        break


def parse(sql: str) -> Stmt:
    toks = tokenize(sql)
    p = _P(toks, sql)
    head = p.kw()
    if head == "PRAGMA":
        st = Stmt("PRAGMA")
        st.text = sql
        st.pragma = " ".join(t[1] for t in toks[1:]).lower()
        return st
    if head == "CREATE":
        st = Stmt("CREATE")
        st.text = sql
        p.take()
        if p.kw() in ("TEMP", "TEMPORARY"):
            p.take()
        if p.kw() == "UNIQUE":
            p.take()
        if p.kw() == "INDEX":
            st.kind = "CREATE-INDEX"
            return st
        p.expect("TABLE")
        if p.kw() == "IF":
            p.expect("IF", "NOT", "EXISTS")
        st.table = p.ident()
        p.expect("(")
        depth = 1
        cur = []
        items = []
        while depth:
            t = p.take()
            if t[0] == "eof":
                raise AnalysisError(f"SQL parse: unbalanced CREATE in {sql!r}")
            if t[1] == "(":
                depth += 1
            elif t[1] == ")":
                depth -= 1
                if depth == 0:
                    break
            if t[1] == "," and depth == 1:
                items.append(cur)
                cur = []
            else:
                cur.append(t)
        items.append(cur)
        for it in items:
            if not it:
                continue
            words = [x[1].upper() if x[0] == "id" else x[1] for x in it]
            if words[0] == "PRIMARY" and words[1] == "KEY":
                st.primary_key = frozenset(x[1] for x in it[2:] if x[0] == "id")
            elif words[0] == "UNIQUE":
                st.unique.append(frozenset(x[1] for x in it[1:] if x[0] == "id"))
            elif words[0] in ("CONSTRAINT", "FOREIGN", "CHECK"):
                continue
            else:
                name = it[0][1]
                st.columns.append(name)
                st.coldefs[name] = words[1:]
                if "PRIMARY" in words and st.primary_key is None:
                    st.primary_key = frozenset([name])
                if "UNIQUE" in words:
                    st.unique.append(frozenset([name]))
                if "DEFAULT" in words:
                    st.defaults[name] = words[words.index("DEFAULT") + 1]
        if p.kw() in ("WITHOUT", "STRICT"):
            while p.peek()[0] != "eof":
                p.take()
        p.done()
        return st
    if head in ("INSERT", "REPLACE"):
        st = Stmt("INSERT")
        st.text = sql
        p.take()
        if head == "REPLACE":
            st.or_clause = "REPLACE"
        if p.kw() == "OR":
            p.take()
            st.or_clause = p.ident().upper()
        p.expect("INTO")
        st.table = p.ident()
        if p.kw() == "(":
            p.take()
            while p.kw() != ")":
                if p.kw() == ",":
                    p.take()
                    continue
                st.columns.append(p.ident())
            p.take()
        p.expect("VALUES", "(")
        idx = 0
        while p.kw() != ")":
            t = p.take()
            if t[1] == ",":
                continue
            st.values.append(t[1])
            if t[1] == "?":
                st.placeholders.append(("value", idx))
            idx += 1
        p.take()
        if p.kw() == "ON":
            st.or_clause = "UPSERT"
            while p.peek()[0] != "eof":
                p.take()
        p.done()
        return st
    if head == "UPDATE":
        st = Stmt("UPDATE")
        st.text = sql
        p.take()
        if p.kw() == "OR":
            p.take()
            st.or_clause = p.ident().upper()
        st.table = p.ident()
        p.expect("SET")
        while True:
            col = p.ident()
            p.expect("=")
            rhs = []
            while p.kw() not in (",", "WHERE") and p.peek()[0] != "eof":
                rhs.append(p.take()[1])
            r = " ".join(rhs)
            st.set_cols.append((col, r))
            for x in rhs:
                if x == "?":
                    st.placeholders.append(("set", col, r))
            if p.kw() == ",":
                p.take()
                continue
            break
        if p.kw() == "WHERE":
            p.take()
            _where(p, st)
        p.done()
        return st
    if head == "DELETE":
        st = Stmt("DELETE")
        st.text = sql
        p.take()
        p.expect("FROM")
        st.table = p.ident()
        if p.kw() == "WHERE":
            p.take()
            _where(p, st)
        p.done()
        return st
    if head == "SELECT":
        st = Stmt("SELECT")
        st.text = sql
        p.take()
        while p.kw() != "FROM":
            t = p.take()
            if t[0] == "eof":
                raise AnalysisError(f"SQL parse: SELECT without FROM {sql!r}")
            if t[1] != ",":
                st.columns.append(t[1])
        p.take()
        st.table = p.ident()
        if p.kw() == "WHERE":
            p.take()
            _where(p, st)
        if p.kw() == "ORDER":
            p.expect("ORDER", "BY")
            while True:
                col = p.ident()
                d = "ASC"
                if p.kw() in ("ASC", "DESC"):
                    d = p.kw()
                    p.take()
                st.order_by.append((col, d))
                if p.kw() == ",":
                    p.take()
                    continue
                break
        if p.kw() == "LIMIT":
            p.take()
            st.limit = p.take()[1]
            if st.limit == "?":
                st.placeholders.append(("limit",))
        p.done()
        return st
    raise AnalysisError(f"SQL statement kind not understood: {sql!r}")


# ---------------------------------------------------------------- execute sites
class ExecSite:
    def __init__(self, call, fn, sql_text, stmt, args, dynamic):
        self.call = call
        self.fn = fn
        self.sql = sql_text
        self.stmt = stmt
        self.args = args  # list of arg expression ASTs or None
        self.dynamic = dynamic


def _string_defs(fn, name):
    out = []
    for n in walk_no_nested(fn):
        if isinstance(n, ast.Assign) and len(n.targets) == 1 and isinstance(n.targets[0], ast.Name) \
                and n.targets[0].id == name:
            out.append(n.value)
    return out


def _const_str(node):
    if isinstance(node, ast.Constant) and isinstance(node.value, str):
        return node.value
    if isinstance(node, ast.BinOp) and isinstance(node.op, ast.Add):
        a, b = _const_str(node.left), _const_str(node.right)
        if a is not None and b is not None:
            return a + b
    if isinstance(node, ast.JoinedStr):
        parts = []
        for v in node.values:
            if isinstance(v, ast.FormattedValue):
                if v.format_spec is not None or v.conversion != -1:
                    return None
                v = v.value
            t = _const_str(v)
            if t is None:
                return None
            parts.append(t)
        return "".join(parts)
    if isinstance(node, ast.BinOp) and isinstance(node.op, ast.Mod):
        # 'text %s text' % 'const' / % ('a', 'b')
        fmt = _const_str(node.left)
        args = node.right.elts if isinstance(node.right, ast.Tuple) else [node.right]
        vals = [_const_str(a) for a in args]
        if fmt is not None and all(v is not None for v in vals) and fmt.count("%s") == len(vals) and fmt.count("%") == len(vals):
            try:
                return fmt % tuple(vals)
            except (TypeError, ValueError):
                return None
    return None


def _sql_value(fn, name):
    """(text, complete) of the string local `name` at the end of the function's straight-line top level: assignments of
    constants, `x = x + e` / `x += e`, f-strings with constant parts, `sep.join(L)` for a list local L of constants, and
    `if L:` on such a list.  complete=False when the text depends on something else (the prefix evaluated so far is returned)."""
    strs, lists = {}, {}

    def ev(e):
        t = _const_str(e)
        if t is not None:
            return t
        if isinstance(e, ast.Name):
            return strs.get(e.id)
        if isinstance(e, ast.BinOp) and isinstance(e.op, ast.Add):
            a, b = ev(e.left), ev(e.right)
            return a + b if a is not None and b is not None else None
        if isinstance(e, ast.JoinedStr):
            parts = []
            for v in e.values:
                if isinstance(v, ast.FormattedValue):
                    if v.format_spec is not None or v.conversion != -1:
                        return None
                    v = v.value
                t = ev(v)
                if t is None:
                    return None
                parts.append(t)
            return "".join(parts)
        if isinstance(e, ast.Call) and isinstance(e.func, ast.Attribute) and e.func.attr == "join" and len(e.args) == 1:
            sep = ev(e.func.value)
            lst = e.args[0]
            items = lists.get(lst.id) if isinstance(lst, ast.Name) else ([ev(x) for x in lst.elts] if isinstance(lst, (ast.List, ast.Tuple)) else None)
            if sep is None or items is None or any(i is None for i in items):
                return None
            return sep.join(items)
        return None

    complete = True

    def block(stmts):
        nonlocal complete
        for st in stmts:
            if not complete:
                return
            if isinstance(st, ast.Assign) and len(st.targets) == 1 and isinstance(st.targets[0], ast.Name):
                t = st.targets[0].id
                if isinstance(st.value, (ast.List, ast.Tuple)):
                    items = [ev(x) for x in st.value.elts]
                    if all(i is not None for i in items):
                        lists[t] = items
                    else:
                        lists.pop(t, None)
                    continue
                v = ev(st.value)
                if v is not None:
                    strs[t] = v
                elif t == name:
                    complete = False
                else:
                    strs.pop(t, None)
            elif isinstance(st, ast.AugAssign) and isinstance(st.target, ast.Name) and isinstance(st.op, ast.Add):
                t = st.target.id
                v = ev(st.value)
                if t in strs and v is not None:
                    strs[t] = strs[t] + v
                elif t == name:
                    complete = False
            elif isinstance(st, ast.If) and isinstance(st.test, ast.Name) and st.test.id in lists:
                block(st.body if lists[st.test.id] else st.orelse)
            elif isinstance(st, ast.If) and isinstance(st.test, (ast.List, ast.Tuple)):
                block(st.body if st.test.elts else st.orelse)
            elif isinstance(st, ast.Expr):
                c = st.value
                if isinstance(c, ast.Call) and isinstance(c.func, ast.Attribute) and c.func.attr == "append" and isinstance(c.func.value, ast.Name) \
                        and c.func.value.id in lists and len(c.args) == 1 and ev(c.args[0]) is not None:
                    lists[c.func.value.id] = lists[c.func.value.id] + [ev(c.args[0])]
                continue
            elif any(isinstance(x, ast.Name) and x.id == name and isinstance(x.ctx, ast.Store) for x in ast.walk(st)) or \
                    any(isinstance(x, ast.Call) and isinstance(x.func, ast.Attribute) and x.func.attr in ("append", "extend", "insert") and isinstance(x.func.value, ast.Name)
                        and x.func.value.id in lists for x in ast.walk(st)):
                # the text (or a clause list it is joined from) is built conditionally below here
                for x in ast.walk(st):
                    if isinstance(x, ast.Call) and isinstance(x.func, ast.Attribute) and x.func.attr in ("append", "extend", "insert") and isinstance(x.func.value, ast.Name):
                        lists.pop(x.func.value.id, None)
                if any(isinstance(x, ast.Name) and x.id == name and isinstance(x.ctx, ast.Store) for x in ast.walk(st)):
                    complete = False
            elif isinstance(st, ast.If) and isinstance(st.test, ast.Name) and any(isinstance(x, ast.Name) and x.id == name and isinstance(x.ctx, ast.Store) for x in ast.walk(st)):
                complete = False
    block(fn.body)
    return strs.get(name), complete


def execute_sites(fn):
    """All ``<x>.execute(sql, args)`` / executemany / executescript call sites of a function."""
    sites = []
    for n in walk_no_nested(fn):
        if isinstance(n, ast.Call) and isinstance(n.func, ast.Attribute) and n.func.attr in (
                "execute", "executemany", "executescript"):
            if not n.args:
                raise AnalysisError(f"execute() without SQL at line {n.lineno}")
            sqlnode = n.args[0]
            text = _const_str(sqlnode)
            dynamic = False
            if text is None and isinstance(sqlnode, ast.Name):
                full, complete = _sql_value(fn, sqlnode.id)
                if full is not None and complete:
                    text = full  # built in pieces, but every piece is a constant
                else:
                    defs = _string_defs(fn, sqlnode.id)
                    first = _const_str(defs[0]) if defs else None
                    if first is None:
                        raise AnalysisError(f"SQL text of execute() at line {n.lineno} cannot be folded")
                    text = first
                    dynamic = True
            elif text is None:
                raise AnalysisError(f"SQL text of execute() at line {n.lineno} cannot be folded: {unparse(sqlnode)[:60]}")
            stmt = parse(text)
            args = None
            if len(n.args) > 1:
                a = n.args[1]
                if isinstance(a, ast.Call) and isinstance(a.func, ast.Name) and a.func.id in ("tuple", "list") and len(a.args) == 1 and not a.keywords:
                    a = a.args[0]
                if isinstance(a, ast.Name) and not dynamic:
                    # a local bound once to a literal sequence (and never extended) is that sequence
                    defs = [x for x in walk_no_nested(fn) if isinstance(x, ast.Assign) and len(x.targets) == 1 and isinstance(x.targets[0], ast.Name) and x.targets[0].id == a.id]
                    grown = any(isinstance(x, ast.Call) and isinstance(x.func, ast.Attribute) and isinstance(x.func.value, ast.Name) and x.func.value.id == a.id
                                and x.func.attr in ("append", "extend", "insert", "pop", "remove") for x in walk_no_nested(fn)) or \
                        any(isinstance(x, ast.AugAssign) and isinstance(x.target, ast.Name) and x.target.id == a.id for x in walk_no_nested(fn))
                    if len(defs) == 1 and isinstance(defs[0].value, (ast.Tuple, ast.List)) and not grown:
                        a = defs[0].value
                if isinstance(a, (ast.Tuple, ast.List)):
                    args = list(a.elts)
                elif dynamic:
                    args = None
                else:
                    args = None
            sites.append(ExecSite(n, fn, text, stmt, args, dynamic))
    return sites
