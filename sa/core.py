"""Engine core: repository loader (E1), findings, evidence and exit-code discipline.

Standard library only.  Nothing from /repo is imported or executed: sources are read
as text and parsed with ``ast``.
"""
from __future__ import annotations

import ast
import hashlib
import json
import os
import re
import time

VERIF = os.path.dirname(os.path.dirname(os.path.abspath(__file__)))
DEFAULT_REPO = os.environ.get("VERIF_REPO", "/repo")


class AnalysisError(Exception):
    """The checker cannot decide (anchor vanished, idiom not understood).

    Mapped to exit code 2 - never to a violation of the repository.
    """


# --------------------------------------------------------------------------- loader
class Module:
    def __init__(self, rel: str, src: str):
        self.rel = rel
        self.src = src
        try:
            self.tree = ast.parse(src, filename=rel)
        except SyntaxError as exc:  # pragma: no cover
            raise AnalysisError(f"{rel} does not parse: {exc}")

    def annotate(self):
        for parent in ast.walk(self.tree):
            for child in ast.iter_child_nodes(parent):
                child._parent = parent  # type: ignore[attr-defined]
        self.tree._parent = None  # type: ignore[attr-defined]
        for n in ast.walk(self.tree):
            n._module = self  # type: ignore[attr-defined]


class Repo:
    """Parsed view of /repo/asyncfix (plus data files on request)."""

    PKG = "asyncfix"

    def __init__(self, root: str = DEFAULT_REPO, overlay: dict | None = None):
        self.root = root
        self.overlay = overlay or {}
        self.modules: dict[str, Module] = {}
        pkg = os.path.join(root, self.PKG)
        if not os.path.isdir(pkg):
            raise AnalysisError(f"package directory {pkg} not found")
        for dirpath, dirnames, filenames in os.walk(pkg):
            dirnames[:] = sorted(d for d in dirnames if d != "__pycache__")
            for fn in sorted(filenames):
                if not fn.endswith(".py"):
                    continue
                full = os.path.join(dirpath, fn)
                rel = os.path.relpath(full, root)
                if rel in self.overlay:
                    src = self.overlay[rel]
                else:
                    with open(full, encoding="utf-8") as fh:
                        src = fh.read()
                self.modules[rel] = Module(rel, src)
        for rel, src in self.overlay.items():
            if rel not in self.modules and rel.endswith(".py"):
                self.modules[rel] = Module(rel, src)
        # behaviour-preserving refactorings (new helper / constant / renamed method) are undone before any rule looks
        from . import normalize as _norm
        self.normalization = _norm.normalize(self.modules)
        for m in self.modules.values():
            m.annotate()
        self._index()

    # -- indexing ---------------------------------------------------------------
    def _index(self):
        self.classes: dict[str, ast.ClassDef] = {}
        self.functions: dict[str, ast.AST] = {}  # "Class.meth" / "func" -> def
        self.module_assigns: dict[str, ast.AST] = {}  # NAME -> value expr
        for mod in self.modules.values():
            for node in mod.tree.body:
                if isinstance(node, ast.ClassDef):
                    self.classes[node.name] = node
                    for sub in node.body:
                        if isinstance(sub, (ast.FunctionDef, ast.AsyncFunctionDef)):
                            q = f"{node.name}.{sub.name}"
                            # property setter shares the name: keep getter, store setter
                            if q in self.functions:
                                q = q + "@setter"
                            self.functions[q] = sub
                elif isinstance(node, (ast.FunctionDef, ast.AsyncFunctionDef)):
                    self.functions[node.name] = node
                elif isinstance(node, ast.Assign) and len(node.targets) == 1:
                    t = node.targets[0]
                    if isinstance(t, ast.Name):
                        self.module_assigns[t.id] = node.value
        self._mark_opaque_with()

    def _mark_opaque_with(self):
        """`with <object of a class / result of a function defined in the package>`: the statements of its __enter__ / __exit__ run at
        the borders of the block but are not part of the function's own control flow.  What the normaliser could read as the
        try/finally it packages is gone by now; what is left is marked, and every analysis that builds the function's flow graph or
        interprets it says so (ANALYSIS-ERROR) instead of reading the block as if nothing happened at its borders."""
        for q, fn in self.functions.items():
            cls = q.split(".")[0] if "." in q else None
            for n in walk_no_nested(fn):
                if not isinstance(n, (ast.With, ast.AsyncWith)):
                    continue
                for it in n.items:
                    e = it.context_expr
                    if isinstance(e, ast.Name):
                        defs = [a for a in walk_no_nested(fn) if isinstance(a, ast.Assign) and len(a.targets) == 1 and isinstance(a.targets[0], ast.Name)
                                and a.targets[0].id == e.id]
                        e = defs[0].value if len(defs) == 1 else e
                    if not isinstance(e, ast.Call):
                        continue
                    f = e.func
                    callee = None
                    if isinstance(f, ast.Name) and (f.id in self.classes or f.id in self.functions):
                        callee = f.id
                    elif isinstance(f, ast.Attribute) and isinstance(f.value, ast.Name) and f.value.id in ("self", "cls", cls or "") and cls \
                            and f"{cls}.{f.attr}" in self.functions:
                        callee = f"{cls}.{f.attr}"
                    if callee:
                        msg = f"{q}: `with {unparse(it.context_expr)[:40]}` enters a context manager defined in the package ({callee}); its enter / exit code is not part of the analysed control flow"
                        n._opaque_cm = msg  # type: ignore[attr-defined]
                        fn._opaque_cm = msg  # type: ignore[attr-defined]

    def module(self, rel: str) -> Module:
        if rel not in self.modules:
            raise AnalysisError(f"anchor module {rel} vanished")
        return self.modules[rel]

    def cls(self, name: str) -> ast.ClassDef:
        if name not in self.classes:
            raise AnalysisError(f"anchor class {name} vanished")
        return self.classes[name]

    def func(self, qual: str):
        if qual not in self.functions:
            raise AnalysisError(f"anchor function {qual} vanished")
        return self.functions[qual]

    def has_func(self, qual: str) -> bool:
        return qual in self.functions

    def methods(self, cls: str) -> dict:
        c = self.cls(cls)
        return {
            n.name: n
            for n in c.body
            if isinstance(n, (ast.FunctionDef, ast.AsyncFunctionDef))
        }

    def mro_func(self, cls: str, meth: str):
        """Resolve a method through the (repo-defined, single) inheritance chain."""
        seen = set()
        while cls in self.classes and cls not in seen:
            seen.add(cls)
            q = f"{cls}.{meth}"
            if q in self.functions:
                return self.functions[q]
            bases = [b for b in self.classes[cls].bases]
            nxt = None
            for b in bases:
                bn = b.id if isinstance(b, ast.Name) else (b.attr if isinstance(b, ast.Attribute) else None)
                if bn in self.classes:
                    nxt = bn
                    break
            cls = nxt
        return None

    def digest(self, rels=None) -> str:
        h = hashlib.sha256()
        for rel in sorted(rels or self.modules):
            h.update(rel.encode())
            h.update(self.modules[rel].src.encode())
        return h.hexdigest()[:16]

    def data_file(self, rel: str) -> str:
        if rel in self.overlay:
            return self.overlay[rel]
        full = os.path.join(self.root, rel)
        if not os.path.exists(full):
            raise AnalysisError(f"anchor data file {rel} vanished")
        with open(full, encoding="utf-8") as fh:
            return fh.read()


# ------------------------------------------------------------------------ ast helpers
def loc(node) -> str:
    mod = getattr(node, "_module", None)
    rel = mod.rel if mod else "?"
    return f"{rel}:{getattr(node, 'lineno', 0)}"


def unparse(node) -> str:
    # memoised on the node: the abstract interpreter and the guard extraction ask for the same texts many thousand times
    try:
        return node._unp
    except AttributeError:
        pass
    try:
        s = ast.unparse(node)
    except Exception:  # pragma: no cover
        s = "<?>"
    try:
        node._unp = s
    except Exception:  # pragma: no cover
        pass
    return s


def short(node, n=90) -> str:
    s = " ".join(unparse(node).split())
    return s if len(s) <= n else s[: n - 3] + "..."


def parent(node):
    return getattr(node, "_parent", None)


def enclosing_func(node):
    p = parent(node)
    while p is not None and not isinstance(p, (ast.FunctionDef, ast.AsyncFunctionDef)):
        p = parent(p)
    return p


def enclosing_stmt(node):
    while node is not None and not isinstance(node, ast.stmt):
        node = parent(node)
    return node


def qualname(fn) -> str:
    p = parent(fn)
    if isinstance(p, ast.ClassDef):
        return f"{p.name}.{fn.name}"
    return fn.name


def walk_no_nested(node):
    """ast.walk that does not descend into nested function/class/lambda bodies."""
    todo = [node]
    first = True
    while todo:
        n = todo.pop()
        if not first and isinstance(
            n, (ast.FunctionDef, ast.AsyncFunctionDef, ast.ClassDef, ast.Lambda)
        ):
            continue
        first = False
        yield n
        todo.extend(reversed(list(ast.iter_child_nodes(n))))


def attr_chain(node) -> str | None:
    """``self._session.next_num_in`` -> 'self._session.next_num_in' (names/attrs only)."""
    parts = []
    while isinstance(node, ast.Attribute):
        parts.append(node.attr)
        node = node.value
    if isinstance(node, ast.Name):
        parts.append(node.id)
        return ".".join(reversed(parts))
    return None


def call_name(call: ast.Call) -> str | None:
    return attr_chain(call.func)


def calls_in(node):
    for n in walk_no_nested(node):
        if isinstance(n, ast.Call):
            yield n


def awaits_in(node):
    return [n for n in walk_no_nested(node) if isinstance(n, ast.Await)]


def norm(s: str) -> str:
    return re.sub(r"\s+", " ", s).strip()


# -------------------------------------------------------------------------- findings
class Finding:
    def __init__(self, rule: str, construct: str, what: str, where: str = "", path=None, note=False):
        self.rule = rule
        self.construct = construct
        self.what = what
        self.where = where
        self.path = path or []
        self.note = note  # informational, never decides the verdict

    @property
    def key(self) -> str:
        return f"{self.rule}::{self.construct}"

    def as_dict(self):
        return {
            "key": self.key,
            "rule": self.rule,
            "construct": self.construct,
            "what": self.what,
            "where": self.where,
            "path": self.path,
        }


class Ctx:
    """Per-run context handed to a property's rule module."""

    def __init__(self, pid: str, repo: Repo, tier: str, seed: int):
        self.pid = pid
        self.repo = repo
        self.tier = tier
        self.seed = seed
        self.findings: list[Finding] = []
        self.notes: list[str] = []
        self.obligations = 0
        self.discharged = 0
        self.evaluations = 0
        self.instances: dict[str, int] = {}  # rule -> instances examined
        self.samples: list = []
        self.rule_texts: dict[str, str] = {}
        self.assumptions: list[str] = []
        self.extra: dict = {}
        self.verbose = not os.environ.get("VERIF_QUIET")

    # -- bookkeeping ------------------------------------------------------------
    def rule(self, rule_id: str, text: str):
        self.rule_texts[rule_id] = text
        self.instances.setdefault(rule_id, 0)

    def log(self, msg: str):
        if self.verbose:
            print(msg)

    def instance(self, rule: str, construct: str, ok: bool, what: str = "", where: str = "",
                 path=None, sample=None, evals: int = 1):
        """Record one examined rule instance (an obligation)."""
        self.obligations += 1
        self.evaluations += max(1, evals)
        self.instances[rule] = self.instances.get(rule, 0) + 1
        if len(self.samples) < 40:
            self.samples.append(sample if sample is not None else {
                "rule": rule, "instance": construct, "where": where, "holds": bool(ok)})
        if ok:
            self.discharged += 1
        else:
            self.findings.append(Finding(rule, construct, what, where, path))

    def note(self, msg: str):
        self.notes.append(msg)
        self.log(f"NOTE: {msg}")

    def floor(self, rule: str, minimum: int):
        """Instance floor: a rule that matches fewer sites than confirmed by hand is broken."""
        got = self.instances.get(rule, 0)
        if got < minimum:
            raise AnalysisError(
                f"rule {rule} examined {got} instance(s), expected at least {minimum}: "
                "an anchor has vanished or an idiom is no longer recognised"
            )


# ------------------------------------------------------------------- known findings
def load_known():
    path = os.path.join(VERIF, "known_findings.json")
    if not os.path.exists(path):
        return {"findings": [], "fixed": []}
    with open(path) as fh:
        return json.load(fh)


def write_evidence(ctx: Ctx, wall: float, violations: list, known: list, status: str):
    os.makedirs(os.path.join(VERIF, "evidence"), exist_ok=True)
    distinct = sum(1 for v in ctx.instances.values() if v > 0)
    ev = {
        "property_id": ctx.pid,
        "tier": ctx.tier,
        "seed": ctx.seed,
        "level": "other",
        "coverage": {
            "explanation": (
                "Static analysis of /repo's current sources (ast, hand-built CFG, folded literal "
                "tables, SQL/regex text); no repository code is executed. Rules: "
                + " | ".join(f"{k}: {v}" for k, v in ctx.rule_texts.items())
            ),
            "obligations": ctx.obligations,
            "discharged": ctx.discharged,
            "evaluations": max(ctx.evaluations, 0),
            "distinct_nontrivial": distinct,
            "rule": "one obligation per (rule, construct) instance enumerated from the repository; "
                    "distinct_nontrivial = number of rules that examined at least one construct",
            "instances_per_rule": ctx.instances,
            "samples": ctx.samples[:40] or [{"note": "no instance"}],
            "checker_cmd": f"./check {ctx.pid} --tier {ctx.tier}",
            "trusted_base": ["CPython ast/compile", "the rule idiom lists in /verif/rules"],
            "source_digest": ctx.repo.digest(),
            "notes": ctx.notes[:50],
            "normalised_before_analysis": ctx.repo.normalization.lines()[:40],
            "status": status,
        },
        "assumptions": ctx.assumptions,
        "wall_s": round(wall, 3),
        "violations": len(violations),
        "known_findings": [f.key for f in known],
    }
    ev["coverage"].update(ctx.extra)
    with open(os.path.join(VERIF, "evidence", f"{ctx.pid}.json"), "w") as fh:
        json.dump(ev, fh, indent=1, default=str)
        fh.write("\n")


def write_replay(pid: str, f: Finding) -> str:
    d = os.path.join(VERIF, "evidence", "replay")
    os.makedirs(d, exist_ok=True)
    safe = re.sub(r"[^A-Za-z0-9_.\-]+", "-", f.key)[:120]
    path = os.path.join(d, f"{pid}-{safe}.json")
    with open(path, "w") as fh:
        json.dump({"property": pid, **f.as_dict()}, fh, indent=1)
        fh.write("\n")
    return path


def now():
    return time.time()


def positions(fn, _cache={}):
    """id(node) -> position in a depth-first, source-order walk of the function (the order statements are written in; line
    numbers do not give it once helper bodies were inlined, since those keep the helper's line numbers)."""
    key = id(fn)
    if key not in _cache:
        out = {}

        def rec(n):
            out[id(n)] = len(out)
            for c in ast.iter_child_nodes(n):
                rec(c)
        rec(fn)
        _cache[key] = out
    return _cache[key]
