"""E10: exact folding of a pure, finite-domain function from its syntax tree.

For a function whose result depends only on its arguments and on literal tables (the order status transition function), the
tables and the lookup code are folded *together*: the function's statements are evaluated by this small evaluator for one
concrete argument tuple at a time, over the whole (finite) domain.  Nothing of the repository is imported or run: the evaluator
knows a fixed, small fragment of Python (assignments to locals, if/elif/else, return, raise, dict / tuple / set displays,
`.get`, subscripts, comparisons, `in`, and/or/not, conditional expressions, isinstance(x, dict), calls of the package's exception
classes, class-level constants of literal shape) and says `Unsupported` for everything else - the caller then reports an analysis
error, never a verdict.  Enum members compare and hash by value (the property the enum-plumbing rule checks separately).
"""
from __future__ import annotations

import ast

from .core import unparse


class Unsupported(Exception):
    pass


class EV:
    """an enum member; equal to (and hashing like) its value, as the package's value-enums do"""
    __slots__ = ("cls", "name", "value")

    def __init__(self, cls, name, value):
        self.cls, self.name, self.value = cls, name, value

    def __eq__(self, o):
        return (o.value if isinstance(o, EV) else o) == self.value

    def __ne__(self, o):
        return not self.__eq__(o)

    def __hash__(self):
        return hash(self.value)

    def __repr__(self):
        return f"{self.cls}.{self.name}"


class Exc:
    """an exception class of the package (as a value in a table) or an instance of one (raised)"""
    __slots__ = ("name",)

    def __init__(self, name):
        self.name = name

    def __eq__(self, o):
        return isinstance(o, Exc) and o.name == self.name

    def __hash__(self):
        return hash(("exc", self.name))

    def __repr__(self):
        return f"<{self.name}>"


class Raised(Exception):
    def __init__(self, name):
        self.name = name


class MiniEval:
    def __init__(self, repo, folder, cls_name: str):
        self.repo, self.fold, self.cls_name = repo, folder, cls_name
        self.exc_names = {n for n, c in repo.classes.items() if any("Error" in unparse(b) or "Exception" in unparse(b) for b in c.bases)} | {"FIXError"}
        self._consts: dict = {}
        self.steps = 0

    # ---- constants of the class / module
    def const(self, name: str):
        if name in self._consts:
            return self._consts[name]
        node = None
        c = self.repo.classes.get(self.cls_name)
        for st in (c.body if c is not None else []):
            if isinstance(st, ast.Assign) and len(st.targets) == 1 and isinstance(st.targets[0], ast.Name) and st.targets[0].id == name:
                node = st.value
        if node is None and name in self.repo.module_assigns:
            node = self.repo.module_assigns[name]
        if node is None:
            raise Unsupported(f"constant {name} not found")
        self._consts[name] = None  # guard against cycles
        v = self.expr(node, {})
        self._consts[name] = v
        return v

    # ---- expressions
    def expr(self, e, env):
        self.steps += 1
        if isinstance(e, ast.Constant):
            return e.value
        if isinstance(e, ast.Name):
            if e.id in env:
                return env[e.id]
            if e.id in self.exc_names:
                return Exc(e.id)
            if e.id in ("None", "True", "False"):
                return {"None": None, "True": True, "False": False}[e.id]
            if e.id == "dict":
                return dict
            return self.const(e.id)
        if isinstance(e, ast.Attribute) and isinstance(e.value, ast.Name):
            base = e.value.id
            if base in self.repo.classes and any("Enum" in unparse(b) for b in self.repo.classes[base].bases):
                mem = self.fold.enum_members(base)
                if e.attr not in mem:
                    raise Unsupported(f"{base}.{e.attr} is not a member")
                return EV(base, e.attr, mem[e.attr])
            if self.cls_name and base in (self.cls_name, "self", "cls"):
                return self.const(e.attr)
            raise Unsupported(unparse(e))
        if isinstance(e, ast.Dict):
            out = {}
            for k, v in zip(e.keys, e.values):
                if k is None:
                    sub = self.expr(v, env)
                    if not isinstance(sub, dict):
                        raise Unsupported("** of a non-dict")
                    out.update(sub)
                    continue
                kk = self.expr(k, env)
                if kk in out:
                    raise Unsupported(f"duplicate key {kk!r} in a table display")
                out[kk] = self.expr(v, env)
            return out
        if isinstance(e, (ast.Tuple, ast.List)):
            vals = tuple(self.expr(x, env) for x in e.elts)
            return vals if isinstance(e, ast.Tuple) else list(vals)
        if isinstance(e, ast.Set):
            return frozenset(self.expr(x, env) for x in e.elts)
        if isinstance(e, ast.Subscript):
            c = self.expr(e.value, env)
            k = self.expr(e.slice, env)
            if isinstance(c, dict):
                if k not in c:
                    raise Raised("KeyError")
                return c[k]
            if isinstance(c, (tuple, list)) and isinstance(k, int) and not isinstance(k, bool):
                if not -len(c) <= k < len(c):
                    raise Raised("IndexError")
                return c[k]
            raise Unsupported(f"subscript of {type(c).__name__}")
        if isinstance(e, ast.UnaryOp) and isinstance(e.op, ast.Not):
            return not self.truth(self.expr(e.operand, env))
        if isinstance(e, ast.BoolOp):
            v = None
            for x in e.values:
                v = self.expr(x, env)
                if isinstance(e.op, ast.And) and not self.truth(v):
                    return v
                if isinstance(e.op, ast.Or) and self.truth(v):
                    return v
            return v
        if isinstance(e, ast.IfExp):
            return self.expr(e.body if self.truth(self.expr(e.test, env)) else e.orelse, env)
        if isinstance(e, ast.Compare):
            left = self.expr(e.left, env)
            for op, c in zip(e.ops, e.comparators):
                right = self.expr(c, env)
                if isinstance(op, ast.Eq):
                    r = left == right
                elif isinstance(op, ast.NotEq):
                    r = left != right
                elif isinstance(op, ast.Is):
                    r = self.same(left, right)
                elif isinstance(op, ast.IsNot):
                    r = not self.same(left, right)
                elif isinstance(op, (ast.In, ast.NotIn)):
                    if not isinstance(right, (dict, tuple, list, frozenset)):
                        raise Unsupported("membership in a non-collection")
                    r = (left in right) if not isinstance(right, (tuple, list)) else any(left == x for x in right)
                    if isinstance(op, ast.NotIn):
                        r = not r
                else:
                    raise Unsupported(f"comparison {type(op).__name__}")
                if not r:
                    return False
                left = right
            return True
        if isinstance(e, ast.JoinedStr):
            return "<text>"
        if isinstance(e, ast.Call):
            f = e.func
            if isinstance(f, ast.Attribute) and f.attr == "get" and 1 <= len(e.args) <= 2 and not e.keywords:
                c = self.expr(f.value, env)
                if not isinstance(c, dict):
                    raise Unsupported(".get on a non-dict")
                k = self.expr(e.args[0], env)
                d = self.expr(e.args[1], env) if len(e.args) == 2 else None
                try:
                    return c[k] if k in c else d
                except TypeError:
                    raise Raised("TypeError")
            if isinstance(f, ast.Name) and f.id in self.exc_names:
                return Exc(f.id)
            if isinstance(f, ast.Name) and f.id == "isinstance" and len(e.args) == 2 and unparse(e.args[1]) == "dict":
                return isinstance(self.expr(e.args[0], env), dict)
            if isinstance(f, ast.Name) and f.id in ("frozenset", "set", "tuple") and len(e.args) == 1 and not e.keywords:
                v = self.expr(e.args[0], env)
                return frozenset(v) if f.id != "tuple" else tuple(v)
            if isinstance(f, ast.Name) and f.id == "dict" and not e.args and not e.keywords:
                return {}
            # a helper of the same class: evaluated the same way
            if isinstance(f, ast.Attribute) and isinstance(f.value, ast.Name) and f.value.id in (self.cls_name, "self", "cls") \
                    and f"{self.cls_name}.{f.attr}" in self.repo.functions and not e.keywords:
                h = self.repo.functions[f"{self.cls_name}.{f.attr}"]
                params = [a.arg for a in h.args.args]
                static = any(unparse(d) == "staticmethod" for d in h.decorator_list)
                if not static:
                    params = params[1:]
                if len(params) != len(e.args) or isinstance(h, ast.AsyncFunctionDef):
                    raise Unsupported(f"call of {f.attr}")
                kind, val = self.call(h, dict(zip(params, [self.expr(a, env) for a in e.args])))
                return val
            raise Unsupported(f"call `{unparse(e)[:50]}`")
        raise Unsupported(f"expression `{unparse(e)[:50]}`")

    @staticmethod
    def same(a, b):
        if a is None or b is None or isinstance(a, bool) or isinstance(b, bool):
            return a is b
        if isinstance(a, Exc) or isinstance(b, Exc):
            return a == b
        if isinstance(a, EV) and isinstance(b, EV):
            return a.cls == b.cls and a.name == b.name
        raise Unsupported("identity test of plain values")

    @staticmethod
    def truth(v):
        if isinstance(v, (Exc, EV)):
            return True if isinstance(v, Exc) else bool(v.value)
        return bool(v)

    # ---- statements
    def block(self, stmts, env):
        for st in stmts:
            self.steps += 1
            if self.steps > 20000:
                raise Unsupported("evaluation does not terminate quickly")
            if isinstance(st, ast.Expr) and isinstance(st.value, ast.Constant):
                continue
            if isinstance(st, ast.Pass):
                continue
            if isinstance(st, ast.Assign) and len(st.targets) == 1:
                t = st.targets[0]
                v = self.expr(st.value, env)
                if isinstance(t, ast.Name):
                    env[t.id] = v
                elif isinstance(t, ast.Subscript) and isinstance(t.value, ast.Name) and isinstance(env.get(t.value.id), dict):
                    env[t.value.id][self.expr(t.slice, env)] = v
                elif isinstance(t, ast.Tuple) and all(isinstance(x, ast.Name) for x in t.elts) and isinstance(v, (tuple, list)) and len(v) == len(t.elts):
                    for x, vv in zip(t.elts, v):
                        env[x.id] = vv
                else:
                    raise Unsupported(f"assignment `{unparse(st)[:50]}`")
                continue
            if isinstance(st, ast.AnnAssign) and isinstance(st.target, ast.Name) and st.value is not None:
                env[st.target.id] = self.expr(st.value, env)
                continue
            if isinstance(st, ast.If):
                r = self.block(st.body if self.truth(self.expr(st.test, env)) else st.orelse, env)
                if r is not None:
                    return r
                continue
            if isinstance(st, ast.Assign) and False:
                pass
            if isinstance(st, ast.For) and not st.orelse:
                it = self.expr(st.iter, env)
                if isinstance(it, dict):
                    it = list(it.keys())
                if not isinstance(it, (tuple, list)):
                    raise Unsupported("loop over a non-literal sequence")
                for item in it:
                    if isinstance(st.target, ast.Name):
                        env[st.target.id] = item
                    elif isinstance(st.target, ast.Tuple) and all(isinstance(x, ast.Name) for x in st.target.elts) and isinstance(item, (tuple, list)) \
                            and len(item) == len(st.target.elts):
                        for x, vv in zip(st.target.elts, item):
                            env[x.id] = vv
                    else:
                        raise Unsupported("loop target")
                    r = self.block(st.body, env)
                    if r is not None:
                        return r
                continue
            if isinstance(st, ast.Return):
                return ("return", None if st.value is None else self.expr(st.value, env))
            if isinstance(st, ast.Raise) and st.exc is not None:
                v = self.expr(st.exc, env)
                if isinstance(v, Exc):
                    raise Raised(v.name)
                raise Unsupported("raise of a non-exception")
            if isinstance(st, ast.Assert):
                if not self.truth(self.expr(st.test, env)):
                    raise Raised("AssertionError")
                continue
            raise Unsupported(f"statement `{unparse(st)[:50]}`")
        return None

    def call(self, fn, args: dict):
        """('return', value) or raises Raised(<exception name>)"""
        self.steps = 0
        env = dict(args)
        r = self.block(fn.body, env)
        return r if r is not None else ("return", None)
