"""Shared view of the journaler for C05/C08/C09/C13: SQL execute sites joined with the CFG."""
from __future__ import annotations

import ast

from .cfg import CFG
from .core import AnalysisError, attr_chain, loc, unparse, walk_no_nested
from .sqltext import execute_sites

OWNER = "asyncfix/journaler.py"
CLS = "Journaler"


class MethodView:
    def __init__(self, name, fn):
        self.name = name
        self.fn = fn
        self.cfg = CFG(fn)
        self.sites = execute_sites(fn)
        self.site_nodes = {}  # site -> [cfg node ids]
        for s in self.sites:
            ids = self.cfg.ids_of(s.call)
            if not ids:
                raise AnalysisError(f"execute() at {loc(s.call)} not found in CFG")
            self.site_nodes[s] = ids
        self.commit_nodes = []
        self.rollback_nodes = []
        for n in self.cfg.nodes:
            if n.ast is None or n.kind in ("handler",):
                continue
            roots = [n.ast]
            if n.kind == "for":
                roots = [n.ast.iter]
            elif n.kind == "with":
                roots = [it.context_expr for it in n.ast.items]
            for r in roots:
                for c in walk_no_nested(r):
                    if isinstance(c, ast.Call) and isinstance(c.func, ast.Attribute):
                        if c.func.attr == "commit":
                            self.commit_nodes.append(n.id)
                        elif c.func.attr == "rollback":
                            self.rollback_nodes.append(n.id)

    def dml_sites(self):
        return [s for s in self.sites if s.stmt.is_dml]

    def in_conn_with(self, site):
        """DML inside ``with self.conn:`` (sqlite3 connection context manager commits on exit)."""
        p = getattr(site.call, "_parent", None)
        while p is not None and p is not self.fn:
            if isinstance(p, (ast.With, ast.AsyncWith)):
                for it in p.items:
                    ch = attr_chain(it.context_expr)
                    if ch and ch.split(".")[-1] in ("conn", "connection", "_conn"):
                        return True
            p = getattr(p, "_parent", None)
        return False


def journaler_methods(repo):
    if OWNER not in repo.modules:
        raise AnalysisError(f"{OWNER} vanished")
    return {name: MethodView(name, fn) for name, fn in repo.methods(CLS).items()}


def schema(views):
    """CREATE TABLE statements found in the journaler: table -> Stmt."""
    out = {}
    for v in views.values():
        for s in v.sites:
            if s.stmt.kind == "CREATE" and s.stmt.table:
                out[s.stmt.table] = s.stmt
    return out
